"""rosbag_gen.py - generator of ROS 1 bag files (format 2.0) from an abstract description."""
import bz2
import struct


def field(k, v):
    b = k + b"=" + v
    return struct.pack("<I", len(b)) + b


def record(hfields, data):
    h = b"".join(field(k, v) for k, v in hfields)
    return struct.pack("<I", len(h)) + h + struct.pack("<I", len(data)) + data


def conn_record(c):
    hdr = [(b"op", b"\x07"), (b"conn", struct.pack("<I", c["id"])), (b"topic", c["topic"])]
    data = b"".join(field(k, v) for k, v in c["fields"])
    return record(hdr, data)


def msg_record(m):
    hdr = [(b"op", b"\x02"), (b"conn", struct.pack("<I", m["conn"])), (b"time", struct.pack("<II", m["secs"], m["nsecs"]))]
    return record(hdr, m["data"])


def render(B, lz4=None):
    """B: {chunks: [ {compression, records:[("conn",c)|("msg",m)]} | None for unchunked group ], ...}"""
    out = bytearray(b"#ROSBAG V2.0\n")
    hdr = [(b"op", b"\x03"), (b"index_pos", struct.pack("<Q", 0)), (b"conn_count", struct.pack("<I", len(B["conns"]))),
           (b"chunk_count", struct.pack("<I", len(B["groups"])))]
    h = b"".join(field(k, v) for k, v in hdr)
    pad = b" " * max(0, 4096 - 13 - 4 - len(h) - 4) if B.get("pad_header", True) else b""
    out += struct.pack("<I", len(h)) + h + struct.pack("<I", len(pad)) + pad
    for g in B["groups"]:
        body = b"".join(conn_record(r[1]) if r[0] == "conn" else msg_record(r[1]) for r in g["records"])
        comp = g["compression"]
        if comp is None:
            out += body            # unchunked records at top level
            continue
        if comp == b"bz2":
            payload = bz2.compress(body)
        elif comp == b"lz4":
            payload = lz4(body)
        else:
            payload = body
        out += record([(b"op", b"\x05"), (b"compression", comp), (b"size", struct.pack("<I", len(body)))], payload)
        # index data record after the chunk (ignored by the converter)
        out += record([(b"op", b"\x04"), (b"ver", struct.pack("<I", 1)), (b"conn", struct.pack("<I", 0)), (b"count", struct.pack("<I", 0))], b"")
    for c in B["conns"]:
        if B.get("trailing_conns", True):
            out += conn_record(c)
    out += record([(b"op", b"\x06"), (b"ver", struct.pack("<I", 1)), (b"chunk_pos", struct.pack("<Q", 0)), (b"start_time", struct.pack("<Q", 0)),
                   (b"end_time", struct.pack("<Q", 0)), (b"count", struct.pack("<I", 0))], b"")
    return bytes(out)


def gen_bag(r):
    nconn = r.randint(1, 5)
    types = [(b"std_msgs/String", b"992ce8a1687cec8c8bd883ec73ca41d1", b"string data\n"),
             (b"geometry_msgs/Point", b"4a842b65f413084dc2b10fb484ea7f17", b"float64 x\nfloat64 y\nfloat64 z\n"),
             # a different type with the same md5sum (as in the real message set): one schema per type/md5 pair, not per md5
             (b"geometry_msgs/Vector3", b"4a842b65f413084dc2b10fb484ea7f17", b"float64 x\nfloat64 y\nfloat64 z\n"),
             (b"pkg/Custom", b"0123", b"int32 a\nHeader h\n" + b"=" * 80 + b"\nMSG: std_msgs/Header\nuint32 seq\n")]
    conns = []
    ids = r.sample([0, 1, 2, 3, 7, 65535, 100, 4], nconn)
    for cid in ids:
        t = r.choice(types)
        md5 = t[1] if r.random() < 0.85 else b"ffff"
        fields = [(b"topic", b"/t%d" % (cid % 3)), (b"type", t[0]), (b"md5sum", md5), (b"message_definition", t[2])]
        if r.random() < 0.5:
            fields.append((b"callerid", b"/node_%d" % cid))
        if r.random() < 0.3:
            fields.append((b"latching", b"1"))
        r.shuffle(fields)
        conns.append({"id": cid, "topic": b"/t%d" % (cid % 3), "fields": fields})
    groups = []
    seen = set()
    for gi in range(r.randint(1, 4)):
        recs = []
        for _ in range(r.randint(0, 6)):
            c = r.choice(conns)
            if c["id"] not in seen or r.random() < 0.15:
                recs.append(("conn", c))
                seen.add(c["id"])
            data = r.choice([b"", b"x", bytes(r.randrange(256) for _ in range(r.randint(1, 40))), b"\x00" * 300])
            recs.append(("msg", {"conn": c["id"], "secs": r.choice([0, 1, 1600000000, 2**32 - 1, r.randrange(2**32)]),
                                 "nsecs": r.choice([0, 999999999, 2**32 - 1, r.randrange(10**9)]), "data": data}))
        groups.append({"compression": r.choice([b"none", b"none", b"lz4", b"bz2", None]), "records": recs})
    return {"conns": conns, "groups": groups, "pad_header": r.random() < 0.5, "trailing_conns": r.random() < 0.7}


def expected(B):
    """what the conversion must contain: messages in bag order, channels, schemas"""
    msgs = []
    for g in B["groups"]:
        for k, v in g["records"]:
            if k == "msg":
                msgs.append(v)
    return msgs
