"""chk_writer.py - checks on the writer family: C05 (valid file, exact pointers), C06 (CRC ranges),
C08 (statistics), C13 (determinism), C14 (failing sink/source)."""
import os
import sys

import common as cm
import gen_write as gw
import mcapspec


def parse_write_obs(lines):
    d = {"new": None, "calls": [], "nw": [], "writes": [], "stats": None, "indexes": None, "chunks": []}
    for l in lines:
        f = l.split(" ")
        if f[0] == "new":
            d["new"] = f[1]
        elif f[0] == "call":
            d["calls"].append(f[2])
            d["nw"].append(int(f[3]))
        elif f[0] == "write":
            d["writes"].append(cm.unhx(f[1]))
        elif f[0] == "stats":
            d["stats"] = " ".join(f[1:])
        elif f[0] == "indexes":
            d["indexes"] = " ".join(f[1:])
        elif f[0] == "chunk":
            d["chunks"].append((cm.unhx(f[1]), cm.unhx(f[2]), cm.unhx(f[3]), f[4]))
    return d


def run_go_and_model(cases, wd, tag="w", go_env=None, extra=None):
    """cases: list of dict(id, o, calls, fault). Returns (go_obs, model_obs, crashes)."""
    lib = cm.lib_id()
    go_scripts = [(c["id"], gw.script_lines(c["o"], c["calls"], c.get("fault"))) for c in cases]
    go_raw, crashed = cm.run_sharded(os.path.join(cm.BUILD, "impl"), "write", go_scripts, wd, tag + "go",
                                     extra_env=go_env)
    go = {k: parse_write_obs(v) for k, v in go_raw.items()}
    m_scripts = []
    for c in cases:
        table = []
        src = c.get("table_from", c["id"])
        g = go.get(src) or (extra or {}).get(src)
        if g:
            for comp, plain, payload, end in g["chunks"]:
                if comp != b"" and end == "eof":
                    table.append((plain, payload))
        m_scripts.append((c["id"], gw.script_lines(c["o"], c["calls"], c.get("fault"), lib=lib, comp_table=table)))
    m_raw, mcrashed = cm.run_sharded(os.path.join(cm.BUILD, "model"), "write", m_scripts, wd, tag + "model")
    model = {k: parse_write_obs(v) for k, v in m_raw.items()}
    return go, model, crashed + mcrashed


def diff_obs(g, m, keys):
    for k in keys:
        if g[k] != m[k]:
            if k == "writes":
                gb, mb = b"".join(g[k]), b"".join(m[k])
                if gb != mb:
                    n = next((i for i in range(min(len(gb), len(mb))) if gb[i] != mb[i]), min(len(gb), len(mb)))
                    return "bytes differ at offset %d (impl %d bytes, model %d bytes): impl ..%s model ..%s" % (
                        n, len(gb), len(mb), gb[max(0, n - 4):n + 12].hex(), mb[max(0, n - 4):n + 12].hex())
                return "write segmentation differs: impl %s model %s" % ([len(x) for x in g[k]][:40], [len(x) for x in m[k]][:40])
            return "%s differs: impl %r model %r" % (k, g[k], m[k])
    return None


def plain_lookup(g):
    tbl = {(comp, payload): plain for comp, plain, payload, end in g["chunks"] if end == "eof"}
    return lambda comp, payload: tbl.get((comp, payload))


def stats_of_line(line):
    f = line.split(" ")
    counts = [] if f[8] == "-" else [tuple(int(x) for x in kv.split(":")) for kv in f[8].split(",")]
    return {"messages": int(f[0]), "schemas": int(f[1]), "channels": int(f[2]), "attachments": int(f[3]),
            "metadata": int(f[4]), "chunks": int(f[5]), "start": int(f[6]), "end": int(f[7]), "counts": counts}


def oracle_file(c, g):
    """Property oracle on the implementation's output alone. Returns list of (prop, message)."""
    probs = []
    o = c["o"]
    if g["new"] != "ok" or any(r != "ok" for r in g["calls"]):
        return probs
    data = b"".join(g["writes"])
    try:
        d = mcapspec.decode(data, plain_lookup(g), skip_magic=o["skipmagic"])
    except mcapspec.SpecError as e:
        return [("C05", "spec decoder rejects the file: %s" % e)]
    # ---- C06: CRC presence/absence ----
    if o["crc"]:
        if d["data_end"]["crc"] == 0 and mcapspec.crc32(data[:d["data_end"]["offset"]]) != 0:
            probs.append(("C06", "data section CRC is 0 with checksums enabled"))
        if d["footer"]["crc"] == 0:
            probs.append(("C06", "summary CRC is 0 with checksums enabled"))
        for ch in d["chunks"]:
            if ch["crc"] == 0 and mcapspec.crc32(ch["plain"]) != 0:
                probs.append(("C06", "chunk CRC is 0 with checksums enabled"))
    else:
        if d["data_end"]["crc"] != 0 or d["footer"]["crc"] != 0 or any(ch["crc"] != 0 for ch in d["chunks"]):
            probs.append(("C06", "a data/summary/chunk CRC field is non-zero with checksums disabled"))
    for a in d["attachments"]:
        if a["crc"] != mcapspec.crc32(data[a["offset"] + 9:a["offset"] + a["length"] - 4]):
            probs.append(("C06", "attachment CRC wrong"))
    # ---- C01-style content equality with what was written ----
    exp = gw.expected_content(o, c["calls"], g["calls"])
    got_msgs = [(m["channel_id"], m["sequence"], m["log_time"], m["publish_time"], m["data"]) for m in d["messages"]]
    exp_msgs = [(m[1], m[2], m[3], m[4], m[5]) for m in exp["messages"]]
    if got_msgs != exp_msgs:
        probs.append(("C05", "decoded messages differ from the messages written"))
    got_att = [(a["log_time"], a["create_time"], a["name"], a["media_type"], a["data"]) for a in d["attachments"]]
    exp_att = [(a[1], a[2], a[3], a[4], b"".join(a[7])) for a in exp["attachments"]]
    if got_att != exp_att:
        probs.append(("C05", "decoded attachments differ from those written"))
    got_md = [(m["name"], sorted(m["metadata"])) for m in d["metadata"]]
    exp_md = [(m[1], sorted(m[2])) for m in exp["metadata"]]
    if got_md != exp_md:
        probs.append(("C05", "decoded metadata differ from those written"))
    for sid, s in exp["schemas"].items():
        ds = d["schemas"].get(sid)
        if ds is None or (ds["name"], ds["encoding"], ds["data"]) != (s[2], s[3], s[4]):
            probs.append(("C05", "schema %d not stored as written" % sid))
    for cid, ch in exp["channels"].items():
        dc = d["channels"].get(cid)
        if dc is None or (dc["schema_id"], dc["topic"], dc["message_encoding"], sorted(dc["metadata"])) != (ch[2], ch[3], ch[4], sorted(ch[5])):
            probs.append(("C05", "channel %d not stored as written" % cid))
    # summary sections present as configured
    S = d["summary"]
    if not o["skipci"] and d["chunks"] and len(S["chunk_indexes"]) != len(d["chunks"]):
        probs.append(("C05", "chunk indexes enabled but %d indexes for %d chunks" % (len(S["chunk_indexes"]), len(d["chunks"]))))
    if not o["skipai"] and len(S["attachment_indexes"]) != len(d["attachments"]):
        probs.append(("C05", "attachment indexes enabled but incomplete"))
    if not o["skipmdi"] and len(S["metadata_indexes"]) != len(d["metadata"]):
        probs.append(("C05", "metadata indexes enabled but incomplete"))
    if not o["skiprsh"] and sorted(s["id"] for s in S["schemas"]) != sorted(d["schemas"]):
        probs.append(("C05", "repeated schemas enabled but summary schemas differ from data-section schemas"))
    if not o["skiprch"] and sorted(s["id"] for s in S["channels"]) != sorted(d["channels"]):
        probs.append(("C05", "repeated channels enabled but summary channels differ"))
    if not o["skipmi"] and o["chunked"]:
        for ch in d["chunks"]:
            if ch["msgs"] and not ch["mi"]:
                probs.append(("C05", "message indexing enabled but chunk at %d has no message index" % ch["offset"]))
    # ---- C08: statistics ----
    true = mcapspec.true_statistics(d)
    if g["stats"]:
        ws = stats_of_line(g["stats"])
        if ws != true:
            probs.append(("C08", "Writer.Statistics %s, true aggregates %s" % (ws, true)))
    if not o["skipstats"]:
        st = S["statistics"]
        if st is None:
            probs.append(("C08", "statistics enabled but no statistics record"))
        else:
            st = dict(st, counts=sorted(st["counts"]))
            if st != true:
                probs.append(("C08", "statistics record %s, true aggregates %s" % (st, true)))
    return probs


def gen_cases(seed, n, tag, **kw):
    g = gw.Gen(seed)
    cases = corner_cases(tag)
    for i in range(n):
        legal = g.r.random() < kw.get("legal_p", 0.9)
        o = g.wopts(**kw.get("force", {}))
        cases.append({"id": "%s%d" % (tag, i), "o": o, "calls": g.calls(kw.get("nmin", 0), kw.get("nmax", 40), legal=legal), "legal": legal})
    return cases


def corner_cases(tag):
    """Deterministic corner workloads that run first on every check (the corpus of past findings)."""
    base = {"crc": True, "chunked": True, "chunksize": 1, "comp": "", "level": 0, "custom": False}
    for f in gw.FLAGS:
        base[f] = False
    H = ("H", b"", b"")
    S = ("S", 1, b"s", b"e", b"d")
    C = ("C", 0, 1, b"t", b"m", [])
    C2 = ("C", 5, 0, b"u", b"", [(b"k", b"v")])
    X = ("X",)
    seqs = [
        [H, X],                                                          # empty file
        [H, S, C, ("M", 0, 0, 0, 0, b"a"), ("M", 0, 1, 5, 5, b"b"), X],  # t=0 then t=5, one per chunk (F8a)
        [H, S, C, ("M", 0, 0, 100, 100, b"a"), C2, X],                   # message-less last chunk (F8b)
        [H, S, C, C2, ("M", 5, 0, 2**64 - 1, 0, b""), ("M", 0, 0, 0, 2**64 - 1, b"xyz"), X],
        [H, ("D", b"md", [(b"b", b"2"), (b"a", b"1")]), ("A", 1, 2, b"att", b"text/plain", 3, 0, [b"ab", b"c"]), X],
        [H, S, S, C, C, ("M", 0, 7, 9, 9, b"z" * 50), ("A", 0, 0, b"", b"", 0, 0, []), ("M", 0, 8, 3, 3, b""), X],
    ]
    variants = [{}, {"skipstats": True}, {"skipstats": True, "skiprsh": True, "skiprch": True},
                {"chunked": False}, {"chunked": False, "skipstats": True, "crc": False},
                {"skipso": True, "skipstats": True}, {"skipmi": True}, {"skipci": True, "skiprch": True},
                {"chunksize": 1048576}, {"skipmagic": True, "overridelib": True}]
    cases = []
    for i, seq in enumerate(seqs):
        for j, v in enumerate(variants):
            o = dict(base); o.update(v)
            cases.append({"id": "%scorner%d_%d" % (tag, i, j), "o": o, "calls": seq, "legal": True})
    # payloads far larger than the chunk size and than any internal buffer's initial capacity, with ordinary traffic
    # before and after them (the random stream stays below 1.5 KiB per payload)
    def big(n, k):
        return bytes((i * k + 3) % 251 for i in range(n))
    bigseq = lambda n: [H, S, C, ("M", 0, 0, 10, 10, b"before"), ("M", 0, 1, 11, 11, big(n, 7)), ("M", 0, 2, 12, 12, b"after"), C2,
                        ("M", 5, 3, 13, 13, b"other channel"), ("D", b"md", [(b"k", b"v")]), ("M", 0, 4, 9, 9, big(n // 3, 11)),
                        ("M", 5, 5, 14, 14, b"z"), X]
    for j, (n, v) in enumerate([(300 * 1024, {"chunksize": 1024}), (70 * 1024, {"chunksize": 64}), (70 * 1024, {"chunksize": 1024, "comp": "zstd"}),
                                (70 * 1024, {"chunksize": 1024, "comp": "lz4"}), (70 * 1024, {"chunked": False}),
                                (130 * 1024, {"chunksize": 4096, "crc": False, "skipmi": True}),
                                # chunks of several hundred KiB at the stronger compression levels (larger codec windows)
                                (300 * 1024, {"chunksize": 1024, "comp": "zstd", "level": 2}), (300 * 1024, {"chunksize": 1048576, "comp": "zstd", "level": 3}),
                                (300 * 1024, {"chunksize": 1048576, "comp": "lz4", "level": 3}), (200 * 1024, {"chunksize": 1048576, "comp": "zstd", "level": 1})]):
        o = dict(base); o.update(v)
        cases.append({"id": "%scornerbig_%d" % (tag, j), "o": o, "calls": bigseq(n), "legal": True})
    return cases


def case_replay(c):
    return ["case %s" % c["id"]] + gw.script_lines(c["o"], c["calls"], c.get("fault"), lib=cm.lib_id()) + ["end"]


def nontrivial_key(c, g):
    o = c["o"]
    return (o["chunked"], o["comp"], o["crc"], min(len(g["chunks"]), 3) if g else 0,
            tuple(sorted(set(x[0] for x in c["calls"]))), tuple(o[f] for f in gw.FLAGS))
