#!/usr/bin/env python3
"""mk_corpus.py - (re)generate the committed corpus of hand-made hostile inputs under corpus/C10."""
import os
import struct
import sys

sys.path.insert(0, os.path.dirname(os.path.abspath(__file__)))
import chk_hostile as ch
import mcapenc

out = os.path.join(os.path.dirname(os.path.dirname(os.path.abspath(__file__))), "corpus", "C10")
os.makedirs(out, exist_ok=True)
L = {"header": {"profile": b"p", "library": b"l"}, "items": [
    ("schema", {"id": 1, "name": b"s", "encoding": b"e", "data": b"d"}),
    ("channel", {"id": 1, "schema_id": 1, "topic": b"/a", "message_encoding": b"m", "metadata": [(b"k", b"v")]}),
    ("chunk", [("message", {"channel_id": 1, "sequence": i, "log_time": 10 + i, "publish_time": i, "data": b"xy"}) for i in range(3)], {}),
    ("attachment", {"log_time": 1, "create_time": 2, "name": b"att", "media_type": b"text/plain", "data": b"hello"}),
    ("metadata", {"name": b"md", "metadata": [(b"a", b"b")]}),
]}
base, info = mcapenc.build(L)
fields = {name: (off, w) for off, w, name in ch.fields_of(base)}


def put(name, val, data=base):
    off, w = fields[name]
    return ch.set_field(data, off, w, val)


files = {
    "complen25": put("chunk_complen", 25),
    "complen_max": put("chunk_complen", 0xFFFFFFFF),
    "usize_2p63": put("chunk_usize", 2**63),
    "usize_2p40": put("chunk_usize", 2**40),
    "chunk_reclen_2p62": put("chunk_reclen", 2**62),
    "chunk_reclen_neg": put("chunk_reclen", 2**64 - 1),
    "ci_length_5": put("ci_length", 5),
    "ci_length_2p40": put("ci_length", 2**40),
    "ci_length_2p31": put("ci_length", 2**31),
    "ci_offset_2p63": put("ci_offset", 2**63),
    "md_reclen_2p40": put("reclen12", 2**40),
    "md_reclen_2p31": put("reclen12", 2**31 + 5),
    "att_name_len_max": put("att_name_len", 0xFFFFFFFF),
    "att_media_len_max": put("att_media_len", 0xFFFFFFFF),
    "att_datasize_2p63": put("att_datasize", 2**63),
    "att_reclen_neg": put("reclen9", 2**64 - 18),
    "summary_start_past": put("summary_start", len(base) + 5),
    "mi_len_max": put("mi_len", 0xFFFFFFFF),
    "chanmeta_len_max": put("chanmeta_len", 0xFFFFFFFF - 3),
    "st_countlen_max": put("st_countlen", 0xFFFFFFFF),
    "ci_molen_max": put("ci_molen", 0xFFFFFFFF),
    # a chunk whose record length is over any configured MaxRecordSize and whose compression-name length is mid-range:
    # with a record size limit nothing proportional to either field may be allocated
    "chunk_reclen_2p40_complen_2p27": put("chunk_complen", 2**27, put("reclen6", 2**40)),
    "chunk_reclen_2p31_complen_2p30": put("chunk_complen", 2**30, put("reclen6", 2**31 + 7)),
    "chunk_reclen_1m_complen_500k": put("chunk_complen", 500000, put("reclen6", 1 << 20)),
    # a chunk record *shorter* than its own fixed fields, with a mid-range compression-name length: passes any record size limit
    "chunk_reclen_0_complen_2p27": put("chunk_complen", 2**27, put("reclen6", 0)),
    "chunk_reclen_31_complen_2p27": put("chunk_complen", 2**27, put("reclen6", 31)),
    "chunk_reclen_12_complen_1m": put("chunk_complen", 1 << 20, put("reclen6", 12)),
}
# the 47-byte backwards-seek file: unknown record then an attachment header with length 2^64-18
files["neg_attachment_47"] = (mcapenc.MAGIC + mcapenc.frame(1, mcapenc.pstr(b"") + mcapenc.pstr(b"")) + mcapenc.frame(0x80, b"")
                              + bytes([9]) + struct.pack("<Q", 2**64 - 18) + b"\x00\x00\x00\x00")
# statistics mention a channel the summary does not repeat
L2 = dict(L, groups=["schema", "statistics", "chunk_index"])
files["stats_without_channels"] = mcapenc.build(L2)[0]
L3 = dict(L, groups=["schema", "channel", "chunk_index"])
files["no_statistics"] = mcapenc.build(L3)[0]
for name, data in files.items():
    open(os.path.join(out, name + ".hex"), "w").write(data.hex() + "\n")
print(len(files), "corpus files written to", out)
