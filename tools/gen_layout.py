#!/usr/bin/env python3
"""gen_layout.py - regenerate coq/theories/Layout_gen.v from /repo/go/mcap/{parse.go,writer.go} through the
Go AST translator tools/gotrans. The generated file lists, per Parse*/Write* function, the primitive reads /
writes in source order and the binding of struct fields to the variables read. LayoutTie.v proves that the
hand-written record parsers and encoders of Records.v are the interpretation of these layouts."""
import json
import os
import re
import subprocess
import sys

VERIF = os.path.dirname(os.path.dirname(os.path.abspath(__file__)))
REPO = os.environ.get("VERIF_REPO", "/repo")
PRIM = {"getUint16": "U16", "getUint32": "U32", "getUint64": "U64", "getPrefixedString": "PStr", "getPrefixedBytes": "PBytes",
        "getPrefixedMap": "PMap", "putByte": "U8", "putUint16": "U16", "putUint32": "U32", "putUint64": "U64",
        "putPrefixedString": "PStr", "putPrefixedBytes": "PBytes", "copy": "PCopy"}


def norm(expr):
    """receiver-independent form of an expression: `s.ID` -> `.ID`"""
    return re.sub(r"(?<![\w.])[A-Za-z_][A-Za-z0-9_]*\.([A-Z][A-Za-z0-9_]*)(?![\w(.])", r".\1", expr)


def q(s):
    return '"%s"' % s.replace('"', "'")


def main():
    env = dict(os.environ, GOFLAGS="-mod=mod", GOPROXY="off", GOSUMDB="off", GOTOOLCHAIN="local")
    p = subprocess.run(["go", "run", ".", os.path.join(REPO, "go", "mcap")], cwd=os.path.join(VERIF, "tools", "gotrans"),
                       stdout=subprocess.PIPE, stderr=subprocess.PIPE, env=env)
    if p.returncode != 0:
        raise RuntimeError("gotrans failed: " + p.stderr.decode()[-500:])
    d = json.loads(p.stdout)
    L = ["(* Layout_gen.v - GENERATED on every run by tools/gen_layout.py (Go AST translator tools/gotrans) from",
         "   /repo/go/mcap/parse.go and writer.go. Do not edit. *)",
         "From Coq Require Import List String.", "Import ListNotations.", "Open Scope string_scope.", "",
         "Inductive prim := U8 | U16 | U32 | U64 | PStr | PBytes | PMap | PCopy | PUnknown.", "",
         "(* per Parse function: (variable, primitive, offset argument, inside a loop) in source order *)",
         "Definition parse_reads : list (string * list (string * prim * string * bool)) := ["]
    rows = []
    for f in d.get("parse", []):
        items = "; ".join("(%s, %s, %s, %s)" % (q(s["var"]), PRIM.get(s["fn"], "PUnknown"), q(s["off"]), "true" if s["in"] == "loop" else "false")
                          for s in f.get("reads") or [])
        rows.append("  (%s, [%s])" % (q(f["name"]), items))
    L.append(";\n".join(rows) + "].")
    L += ["", "(* per Parse function: struct field -> the variable read that it is built from (first read variable occurring in the",
          "   expression; \"\" when none), in source order *)", "Definition parse_fields : list (string * list (string * string)) := ["]
    rows = []
    for f in d.get("parse", []):
        vars_ = [s["var"] for s in f.get("reads") or []]
        items = []
        for k in f.get("field_order") or []:
            e = (f.get("fields") or {}).get(k, "")
            toks = re.findall(r"[A-Za-z_][A-Za-z0-9_]*", e)
            v = next((t for t in toks if t in vars_), "")
            items.append("(%s, %s)" % (q(k), q(v)))
        rows.append("  (%s, [%s])" % (q(f["name"]), "; ".join(items)))
    L.append(";\n".join(rows) + "].")
    L += ["", "(* per Write function: (primitive, expression written, inside a loop) in source order, and the opcodes passed to writeRecord *)",
          "Definition write_puts : list (string * list (prim * string * bool)) := ["]
    rows = []
    for f in d.get("write", []):
        items = "; ".join("(%s, %s, %s)" % (PRIM.get(s["fn"], "PUnknown"), q(norm(s["expr"])), "true" if s["in"] == "loop" else "false") for s in f.get("puts") or [])
        rows.append("  (%s, [%s])" % (q(f["name"]), items))
    L.append(";\n".join(rows) + "].")
    L += ["", "Definition write_opcodes : list (string * list string) := ["]
    L.append(";\n".join("  (%s, [%s])" % (q(f["name"]), "; ".join(q(o) for o in f.get("opcode") or [])) for f in d.get("write", [])) + "].")
    L += ["", "Definition fn_loops : list (string * nat) := ["]
    L.append(";\n".join("  (%s, %d)" % (q(f["name"]), f["loops"]) for f in d.get("parse", []) + d.get("write", [])) + "].")
    text = "\n".join(L) + "\n"
    path = os.path.join(VERIF, "coq", "theories", "Layout_gen.v")
    old = open(path).read() if os.path.exists(path) else None
    if old != text:
        open(path, "w").write(text)
    import gen_decisions
    gen_decisions.write(d.get("decisions") or [])
    return d


if __name__ == "__main__":
    main()
    print("Layout_gen.v written")
