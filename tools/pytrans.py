#!/usr/bin/env python3
"""pytrans.py - translator from python/mcap's reader decisions to Gallina (coq/theories/PyDecisions_gen.v), regenerated on
every run. With Python's own `ast` module it extracts, structurally:
  * from reader.py `_chunks_matching_topics`: the four tests that end in `continue` (time window start/end, "no topic
    filter", "no message index");
  * from reader.py `SeekingReader.iter_messages` and `NonSeekingReader._iter_messages_internal`: the three per-message
    `continue` guards (topic, start, end);
  * from _message_queue.py: `_Orderable.__lt__`, `_compare`, `_position_less_than`, and the `log_time` / `position`
    methods of the two wrappers.
Every leaf expression is mapped to a term over the state of the Python model (Py.v); anything unmapped becomes an unbound
identifier, so that PyDecisionTie.v stops compiling when a decision changes shape."""
import ast
import os
import re

VERIF = os.path.dirname(os.path.dirname(os.path.abspath(__file__)))
REPO = os.environ.get("VERIF_REPO", "/repo")


def ident(s):
    return "PY_UNMAPPED_" + re.sub(r"[^A-Za-z0-9]+", "_", s).strip("_")


def is_none(n):
    return isinstance(n, ast.Constant) and n.value is None


CMP = {ast.Lt: ("N.ltb", False), ast.Gt: ("N.ltb", True), ast.LtE: ("N.leb", False), ast.GtE: ("N.leb", True), ast.Eq: ("N.eqb", False)}


def R(n, env):
    """expression -> Gallina term (string)"""
    src = ast.unparse(n)
    if src in env:
        return "(%s)" % env[src]
    if isinstance(n, ast.BoolOp) and isinstance(n.op, ast.And):
        v0 = n.values[0]
        rest = n.values[1:]
        if isinstance(v0, ast.Compare) and len(v0.ops) == 1 and isinstance(v0.ops[0], ast.IsNot) and is_none(v0.comparators[0]):
            x = ast.unparse(v0.left)
            if x in env:
                var = re.sub(r"\W", "_", x) + "_v"
                env2 = dict(env)
                env2[x] = var
                body = R(ast.BoolOp(op=ast.And(), values=rest), env2) if len(rest) > 1 else R(rest[0], env2)
                return "(match %s with Some %s => %s | None => false end)" % (env[x], var, body)
        t = R(n.values[0], env)
        for v in n.values[1:]:
            t = "(andb %s %s)" % (t, R(v, env))
        return t
    if isinstance(n, ast.BoolOp) and isinstance(n.op, ast.Or):
        t = R(n.values[0], env)
        for v in n.values[1:]:
            t = "(orb %s %s)" % (t, R(v, env))
        return t
    if isinstance(n, ast.UnaryOp) and isinstance(n.op, ast.Not):
        return "(negb %s)" % R(n.operand, env)
    if isinstance(n, ast.Compare) and len(n.ops) == 1:
        op, l, r = n.ops[0], n.left, n.comparators[0]
        if isinstance(op, ast.Is) and is_none(r):
            return "(py_isnone %s)" % R(l, env)
        if isinstance(op, ast.IsNot) and is_none(r):
            return "(negb (py_isnone %s))" % R(l, env)
        if type(op) in CMP:
            f, flip = CMP[type(op)]
            a, b = R(l, env), R(r, env)
            if flip:
                a, b = b, a
            return "(%s %s %s)" % (f, a, b)
        if isinstance(op, ast.NotEq):
            return "(negb (N.eqb %s %s))" % (R(l, env), R(r, env))
        return ident("cmp " + src)
    if isinstance(n, ast.Call):
        f = ast.unparse(n.func)
        if f == "self._compare" and len(n.args) == 2:
            return "(py_compare rev_ %s %s)" % (R(n.args[0], env), R(n.args[1], env))
        if f == "self._position_less_than" and len(n.args) == 1:
            return "(py_position_less_than rev_ x y)"
        return ident("call " + src)
    if isinstance(n, ast.Constant):
        if n.value is None:
            return "None"
        if isinstance(n.value, bool):
            return "true" if n.value else "false"
        if isinstance(n.value, int):
            return "%d%%N" % n.value
    if isinstance(n, ast.Tuple) and len(n.elts) == 2:
        return "(%s, %s)" % (R(n.elts[0], env), R(n.elts[1], env))
    if isinstance(n, ast.BinOp) and isinstance(n.op, ast.Add):
        return "(N.add %s %s)" % (R(n.left, env), R(n.right, env))
    return ident(src)


def body_expr(stmts, env):
    """`if c: return a` ... `return b` -> nested conditionals; tuple-unpacking assignments are bound through env"""
    stmts = [s for s in stmts if not (isinstance(s, ast.Expr) and isinstance(s.value, ast.Constant))]
    if not stmts:
        return ident("empty body")
    s = stmts[0]
    if isinstance(s, ast.Assign) and isinstance(s.targets[0], ast.Tuple):
        return body_expr(stmts[1:], env)
    if isinstance(s, ast.Return) and s.value is not None:
        return R(s.value, env)
    if isinstance(s, ast.If) and not s.orelse:
        return "(if %s then %s else %s)" % (R(s.test, env), body_expr(s.body, env), body_expr(stmts[1:], env))
    if isinstance(s, ast.If):
        return "(if %s then %s else %s)" % (R(s.test, env), body_expr(s.body, env), body_expr(s.orelse, env))
    return ident("stmt " + ast.unparse(s)[:40])


def find_def(tree, name, cls=None):
    for n in ast.walk(tree):
        if cls is not None:
            if isinstance(n, ast.ClassDef) and n.name == cls:
                for m in n.body:
                    if isinstance(m, ast.FunctionDef) and m.name == name:
                        return m
        elif isinstance(n, ast.FunctionDef) and n.name == name:
            return n
    return None


def continue_guards(fn, only_continue):
    out = []
    for n in ast.walk(fn):
        if isinstance(n, ast.If) and n.body and isinstance(n.body[-1], ast.Continue) and (len(n.body) == 1 or not only_continue):
            out.append(n)
    out.sort(key=lambda n: (n.lineno, n.col_offset))
    return out


def pick(guards, word):
    for g in guards:
        if word in ast.unparse(g.test):
            return g.test
    return None


def main():
    rd = ast.parse(open(os.path.join(REPO, "python", "mcap", "mcap", "reader.py")).read())
    mq = ast.parse(open(os.path.join(REPO, "python", "mcap", "mcap", "_message_queue.py")).read())
    defs = []

    def add(name, binders, ty, term):
        defs.append("Definition py_%s %s : %s :=\n  %s." % (name, binders, ty, term if term is not None else ident("missing " + name)))

    FLT = {"start_time": "mf_start flt", "end_time": "mf_end flt", "topics": "mf_topics flt"}
    # ---- _chunks_matching_topics
    env = dict(FLT)
    env.update({"chunk_index.message_end_time": "ci_end ci", "chunk_index.message_start_time": "ci_start ci",
                "len(chunk_index.message_index_offsets)": "N.of_nat (List.length (ci_mioffsets ci))"})
    f = find_def(rd, "_chunks_matching_topics")
    g = continue_guards(f, False) if f else []
    tests = [x.test for x in g]
    names = ["cm_skip_start", "cm_skip_end", "cm_all_topics", "cm_no_index"]
    for i, nm in enumerate(names):
        add(nm, "(flt : mfilter) (ci : chunkindex)", "bool", R(tests[i], env) if i < len(tests) and len(tests) == 4 else None)
    # the per-channel test inside the loop over message index offsets
    hit = None
    if f:
        for n in ast.walk(f):
            if isinstance(n, ast.If) and n.body and isinstance(n.body[-1], ast.Break):
                hit = n.test
    add("cm_topic_hit", "(ts : list bytes) (c : channel)", "bool",
        R(hit, {"summary.channels[channel_id].topic in topics": "mem_topic (c_topic c) ts"}) if hit is not None else None)
    # ---- per-message guards
    menv = dict(FLT)
    menv.update({"record.log_time": "m_log m", "channel.topic not in topics": "negb (mem_topic (c_topic c) topics_v)"})
    for cls, fn, tag in (("SeekingReader", "iter_messages", "sk"), ("NonSeekingReader", "_iter_messages_internal", "ns")):
        f = find_def(rd, fn, cls)
        g = continue_guards(f, True) if f else []
        for word, nm in (("topics", "skip_topic"), ("start_time", "skip_start"), ("end_time", "skip_end")):
            t = pick(g, word)
            add("%s_%s" % (tag, nm), "(flt : mfilter) (c : channel) (m : message)", "bool", R(t, menv) if t is not None else None)
    # ---- _message_queue.py
    qenv = {"self.reverse": "rev_", "a": "a", "b": "b"}
    f = find_def(mq, "_compare", "_Orderable")
    add("compare", "(rev_ : bool) (a b : N)", "bool", body_expr(f.body, qenv) if f else None)
    cenv = {"self.reverse": "rev_", "self.item.message_end_time": "ci_end ci", "self.item.message_start_time": "ci_start ci",
            "self.item.chunk_start_offset": "ci_offset ci", "self.item.chunk_length": "ci_length ci"}
    f = find_def(mq, "log_time", "_ChunkIndexWrapper")
    add("chunk_log_time", "(rev_ : bool) (ci : chunkindex)", "N", body_expr(f.body, cenv) if f else None)
    f = find_def(mq, "position", "_ChunkIndexWrapper")
    add("chunk_position", "(rev_ : bool) (ci : chunkindex)", "N * option N", body_expr(f.body, cenv) if f else None)
    tenv = {"self.item[0][2].log_time": "t_log t", "self.item[1]": "off", "self.item[2]": "Some i"}
    f = find_def(mq, "log_time", "_MessageTupleWrapper")
    add("msg_log_time", "(t : triple)", "N", body_expr(f.body, tenv) if f else None)
    f = find_def(mq, "position", "_MessageTupleWrapper")
    add("msg_position", "(t : triple) (off i : N)", "N * option N", body_expr(f.body, tenv) if f else None)
    defs.append("Definition py_log_time (rev_ : bool) (x : qitem) : N :=\n  match x with QChunk ci => py_chunk_log_time rev_ ci | QMsg t _ _ => py_msg_log_time t end.")
    defs.append("Definition py_position (rev_ : bool) (x : qitem) : N * option N :=\n  match x with QChunk ci => py_chunk_position rev_ ci | QMsg t off i => py_msg_position t off i end.")
    penv = {"this_chunk_offset": "fst (py_position rev_ x)", "this_message_offset": "snd (py_position rev_ x)",
            "other_chunk_offset": "fst (py_position rev_ y)", "other_message_offset": "snd (py_position rev_ y)"}
    f = find_def(mq, "_position_less_than", "_Orderable")
    term = None
    if f:
        # after the `is None` test both message offsets are numbers
        ifs = [s for s in f.body if isinstance(s, ast.If)]
        if len(ifs) == 2 and isinstance(f.body[-1], ast.Return):
            first = R(ifs[0].test, penv)
            num = dict(penv)
            num["this_message_offset"] = "py_unsome (snd (py_position rev_ x))"
            num["other_message_offset"] = "py_unsome (snd (py_position rev_ y))"
            term = "(if %s then %s else (if %s then %s else %s))" % (first, body_expr(ifs[0].body, penv), R(ifs[1].test, num),
                                                                      body_expr(ifs[1].body, num), R(f.body[-1].value, num))
    add("position_less_than", "(rev_ : bool) (x y : qitem)", "bool", term)
    lenv = {"self.log_time()": "py_log_time rev_ x", "other.log_time()": "py_log_time rev_ y"}
    f = find_def(mq, "__lt__", "_Orderable")
    add("lt", "(rev_ : bool) (x y : qitem)", "bool", body_expr(f.body, lenv) if f else None)
    L = ["(* PyDecisions_gen.v - GENERATED on every run by tools/pytrans.py from the Python AST of /repo/python/mcap/mcap/reader.py",
         "   and _message_queue.py. Do not edit. Each definition is one decision of the package, over the Python model's state. *)",
         "From Coq Require Import List NArith ZArith Bool.", "From Mcap Require Import Bytes GoSem Records Py.", "Import ListNotations.", "",
         "Definition py_isnone {A} (x : option A) : bool := match x with Some _ => false | None => true end.",
         "Definition py_unsome (x : option N) : N := match x with Some v => v | None => 0%N end.", ""]
    text = "\n".join(L + defs) + "\n"
    path = os.path.join(VERIF, "coq", "theories", "PyDecisions_gen.v")
    old = open(path).read() if os.path.exists(path) else None
    if old != text:
        open(path, "w").write(text)


if __name__ == "__main__":
    main()
    print("PyDecisions_gen.v written")
