// decisions.go - second half of the translator: the boolean decisions of the readers, the read options and the
// writer's bookkeeping (comparators handed to sort.Slice / sort.SliceStable, time-window and topic tests, the
// "load the next chunk first" test, the option validators, the writer's chunk and statistics updates) are
// located structurally in the Go AST and emitted as expression trees. tools/gen_decisions.py turns them into
// Gallina definitions (coq/theories/Decisions_gen.v); DecisionTie.v proves them equal to the model's own.
package main

import (
	"go/ast"
	"go/parser"
	"go/token"
	"path/filepath"
	"strings"
)

// expr is the neutral expression tree.
type expr struct {
	K  string `json:"k"` // bin | not | leaf | lit | ite | notnil | isnil | unknown
	Op string `json:"op,omitempty"`
	S  string `json:"s,omitempty"`
	L  *expr  `json:"l,omitempty"`
	R  *expr  `json:"r,omitempty"`
	X  *expr  `json:"x,omitempty"`
	C  *expr  `json:"c,omitempty"`
}

type decision struct {
	Name string `json:"name"`
	Expr *expr  `json:"expr"`
}

func isNil(e ast.Expr) bool {
	id, ok := e.(*ast.Ident)
	return ok && id.Name == "nil"
}

func trExpr(e ast.Expr) *expr {
	switch x := e.(type) {
	case *ast.ParenExpr:
		return trExpr(x.X)
	case *ast.BinaryExpr:
		if x.Op == token.NEQ || x.Op == token.EQL {
			k := "notnil"
			if x.Op == token.EQL {
				k = "isnil"
			}
			if isNil(x.Y) {
				return &expr{K: k, X: trExpr(x.X)}
			}
			if isNil(x.X) {
				return &expr{K: k, X: trExpr(x.Y)}
			}
		}
		switch x.Op {
		case token.LAND, token.LOR, token.LSS, token.GTR, token.LEQ, token.GEQ, token.EQL, token.NEQ, token.ADD:
			return &expr{K: "bin", Op: x.Op.String(), L: trExpr(x.X), R: trExpr(x.Y)}
		}
		return &expr{K: "unknown", S: src(e)}
	case *ast.UnaryExpr:
		if x.Op == token.NOT {
			return &expr{K: "not", X: trExpr(x.X)}
		}
		return &expr{K: "unknown", S: src(e)}
	case *ast.BasicLit:
		if x.Kind == token.INT {
			return &expr{K: "lit", S: x.Value}
		}
		return &expr{K: "unknown", S: src(e)}
	case *ast.Ident:
		if x.Name == "true" || x.Name == "false" {
			return &expr{K: "lit", S: x.Name}
		}
		return &expr{K: "leaf", S: x.Name}
	case *ast.SelectorExpr, *ast.IndexExpr, *ast.CallExpr:
		return &expr{K: "leaf", S: src(e)}
	}
	return &expr{K: "unknown", S: src(e)}
}

// trBody translates a statement list made of `if c { return a }` ... `return b` into nested conditionals.
func trBody(stmts []ast.Stmt) *expr {
	if len(stmts) == 0 {
		return &expr{K: "unknown", S: "empty body"}
	}
	switch s := stmts[0].(type) {
	case *ast.ReturnStmt:
		if len(s.Results) == 1 {
			return trExpr(s.Results[0])
		}
	case *ast.IfStmt:
		if s.Init == nil {
			var els *expr
			if s.Else != nil {
				if b, ok := s.Else.(*ast.BlockStmt); ok {
					els = trBody(b.List)
				} else {
					els = &expr{K: "unknown", S: "else-if"}
				}
			} else {
				els = trBody(stmts[1:])
			}
			return &expr{K: "ite", C: trExpr(s.Cond), L: trBody(s.Body.List), R: els}
		}
	}
	return &expr{K: "unknown", S: src(stmts[0])}
}

func findFunc(af *ast.File, recv, name string) *ast.FuncDecl {
	for _, decl := range af.Decls {
		d, ok := decl.(*ast.FuncDecl)
		if ok && d.Body != nil && d.Name.Name == name && recvName(d) == recv {
			return d
		}
	}
	return nil
}

// contains reports whether pred holds for some node below n.
func contains(n ast.Node, pred func(ast.Node) bool) bool {
	found := false
	ast.Inspect(n, func(m ast.Node) bool {
		if m != nil && pred(m) {
			found = true
		}
		return !found
	})
	return found
}

func isAppendTo(target string) func(ast.Node) bool {
	return func(n ast.Node) bool {
		a, ok := n.(*ast.AssignStmt)
		if !ok || len(a.Lhs) != 1 || len(a.Rhs) != 1 || src(a.Lhs[0]) != target {
			return false
		}
		c, ok := a.Rhs[0].(*ast.CallExpr)
		if !ok {
			return false
		}
		id, ok := c.Fun.(*ast.Ident)
		return ok && id.Name == "append"
	}
}

func isAssignTo(target string) func(ast.Node) bool {
	return func(n ast.Node) bool {
		a, ok := n.(*ast.AssignStmt)
		return ok && len(a.Lhs) == 1 && src(a.Lhs[0]) == target
	}
}

func isCallTo(target string) func(ast.Node) bool {
	return func(n ast.Node) bool {
		c, ok := n.(*ast.CallExpr)
		return ok && src(c.Fun) == target
	}
}

// returnsLike: a return statement whose text contains the given fragment
func returnsLike(fragment string) func(ast.Node) bool {
	return func(n ast.Node) bool {
		r, ok := n.(*ast.ReturnStmt)
		return ok && strings.Contains(src(r), fragment)
	}
}

// mentioning keeps the conditions whose text contains the given fragment
func mentioning(cs []ast.Expr, fragment string) []ast.Expr {
	var out []ast.Expr
	for _, c := range cs {
		if strings.Contains(src(c), fragment) {
			out = append(out, c)
		}
	}
	return out
}

func isErrReturn(n ast.Node) bool {
	r, ok := n.(*ast.ReturnStmt)
	if !ok || len(r.Results) == 0 {
		return false
	}
	c, ok := r.Results[len(r.Results)-1].(*ast.CallExpr)
	return ok && src(c.Fun) == "fmt.Errorf"
}

// guards returns the conditions of all IfStmt (outermost first) whose *then* branch contains a node satisfying pred.
func guards(root ast.Node, pred func(ast.Node) bool) []ast.Expr {
	var out []ast.Expr
	ast.Inspect(root, func(n ast.Node) bool {
		if s, ok := n.(*ast.IfStmt); ok && contains(s.Body, pred) {
			out = append(out, s.Cond)
		}
		return true
	})
	return out
}

func innermost(cs []ast.Expr) *expr {
	if len(cs) == 0 {
		return &expr{K: "unknown", S: "site not found"}
	}
	return trExpr(cs[len(cs)-1])
}

func outermost(cs []ast.Expr) *expr {
	if len(cs) == 0 {
		return &expr{K: "unknown", S: "site not found"}
	}
	return trExpr(cs[0])
}

func conj(cs []ast.Expr) *expr {
	if len(cs) == 0 {
		return &expr{K: "unknown", S: "site not found"}
	}
	e := trExpr(cs[0])
	for _, c := range cs[1:] {
		e = &expr{K: "bin", Op: "&&", L: e, R: trExpr(c)}
	}
	return e
}

// sortClosures finds, inside fn, `switch <tag> { case L: ... sortFn(slice, func(i, j int) bool {...}) }` and returns label -> body.
func sortClosures(fn *ast.FuncDecl, tag, sortFn string) map[string]*expr {
	out := map[string]*expr{}
	ast.Inspect(fn.Body, func(n ast.Node) bool {
		sw, ok := n.(*ast.SwitchStmt)
		if !ok || sw.Tag == nil || src(sw.Tag) != tag {
			return true
		}
		for _, st := range sw.Body.List {
			cc, ok := st.(*ast.CaseClause)
			if !ok || len(cc.List) != 1 {
				continue
			}
			label := src(cc.List[0])
			for _, s := range cc.Body {
				ast.Inspect(s, func(m ast.Node) bool {
					c, ok := m.(*ast.CallExpr)
					if !ok || src(c.Fun) != sortFn || len(c.Args) != 2 {
						return true
					}
					if fl, ok := c.Args[1].(*ast.FuncLit); ok {
						if _, dup := out[label]; dup {
							out[label] = &expr{K: "unknown", S: "two sorts in one case"}
						} else {
							out[label] = trBody(fl.Body.List)
						}
					}
					return true
				})
			}
		}
		return true
	})
	return out
}

func parse(dir, file string) *ast.File {
	af, err := parser.ParseFile(fset, filepath.Join(dir, file), nil, 0)
	if err != nil {
		return &ast.File{}
	}
	return af
}

func missing(what string) *expr { return &expr{K: "unknown", S: "missing " + what} }

func decisions(dir string) []decision {
	var out []decision
	add := func(name string, e *expr) {
		if e == nil {
			e = missing(name)
		}
		out = append(out, decision{Name: name, Expr: e})
	}
	// ---- indexed iterator
	iter := parse(dir, "indexed_message_iterator.go")
	if f := findFunc(iter, "indexedMessageIterator", "parseSummarySection"); f != nil {
		cl := sortClosures(f, "it.order", "sort.Slice")
		for _, l := range []string{"FileOrder", "LogTimeOrder", "ReverseLogTimeOrder"} {
			add("ci_less_"+l, cl[l])
		}
		add("ci_overlap", innermost(guards(f.Body, isAppendTo("it.chunkIndexes"))))
	} else {
		add("ci_overlap", nil)
	}
	if f := findFunc(iter, "indexedMessageIterator", "loadChunk"); f != nil {
		cl := sortClosures(f, "it.order", "sort.SliceStable")
		for _, l := range []string{"LogTimeOrder", "ReverseLogTimeOrder"} {
			add("en_less_"+l, cl[l])
		}
		add("msg_select_indexed", conj(guards(f.Body, isAppendTo("it.messageIndexes"))))
	} else {
		add("msg_select_indexed", nil)
	}
	if f := findFunc(iter, "indexedMessageIterator", "NextInto"); f != nil {
		var cs []ast.Expr
		for _, c := range guards(f.Body, isCallTo("it.loadChunk")) {
			if strings.Contains(src(c), "it.order") {
				cs = append(cs, c)
			}
		}
		add("load_first", innermost(cs))
	} else {
		add("load_first", nil)
	}
	if f := findFunc(iter, "indexedMessageIterator", "pruneChunkIndexesByTopic"); f != nil {
		var init *expr
		ast.Inspect(f.Body, func(n ast.Node) bool {
			if a, ok := n.(*ast.AssignStmt); ok && a.Tok == token.DEFINE && len(a.Lhs) == 1 && src(a.Lhs[0]) == "keep" && init == nil {
				init = trExpr(a.Rhs[0])
			}
			return true
		})
		add("prune_init", init)
		add("prune_hit", innermost(guards(f.Body, isAssignTo("keep"))))
	} else {
		add("prune_init", nil)
	}
	// ---- unindexed iterator
	un := parse(dir, "unindexed_message_iterator.go")
	if f := findFunc(un, "unindexedMessageIterator", "NextInto"); f != nil {
		add("u_chan_select", innermost(guards(f.Body, isCallTo("it.channels.Set"))))
		add("u_msg_window", innermost(guards(f.Body, func(n ast.Node) bool {
			r, ok := n.(*ast.ReturnStmt)
			return ok && len(r.Results) == 4 && src(r.Results[2]) == "msg" && isNil(r.Results[3])
		})))
	} else {
		add("u_chan_select", nil)
	}
	// ---- read options
	ro := parse(dir, "reader_options.go")
	for _, name := range []string{"After", "Before", "AfterNanos", "BeforeNanos", "InOrder", "UsingIndex"} {
		if f := findFunc(ro, "", name); f != nil {
			add("opt_"+name+"_err", innermost(guards(f.Body, isErrReturn)))
		} else {
			add("opt_"+name+"_err", nil)
		}
	}
	if f := findFunc(ro, "ReadOptions", "Finalize"); f != nil {
		add("finalize_start", innermost(guards(f.Body, isAssignTo("ro.StartNanos"))))
		add("finalize_end", innermost(guards(f.Body, isAssignTo("ro.EndNanos"))))
	} else {
		add("finalize_start", nil)
	}
	// ---- Info
	mc := parse(dir, "mcap.go")
	if f := findFunc(mc, "Info", "CanReadMessagesUsingIndex"); f != nil {
		add("can_use_index", trBody(f.Body.List))
	} else {
		add("can_use_index", nil)
	}
	// ---- lexer
	lx := parse(dir, "lexer.go")
	if f := findFunc(lx, "Lexer", "Next"); f != nil {
		add("lx_leave_chunk", innermost(guards(f.Body, isAssignTo("l.inChunk"))))
		add("lx_magic_end", innermost(guards(f.Body, returnsLike("nil, io.EOF"))))
		add("lx_record_too_large", innermost(guards(f.Body, returnsLike("ErrRecordTooLarge"))))
		add("lx_att_too_long", innermost(mentioning(guards(f.Body, isErrReturn), "math.MaxInt64")))
		add("lx_grow_p", innermost(guards(f.Body, isCallTo("makeSafe"))))
	} else {
		add("lx_leave_chunk", nil)
	}
	if f := findFunc(lx, "", "loadChunk"); f != nil {
		add("lx_nested", innermost(guards(f.Body, returnsLike("ErrNestedChunk"))))
		add("lx_complen", outermost(mentioning(guards(f.Body, isErrReturn), "headerLen")))
		add("lx_scratch_grow", outermost(mentioning(guards(f.Body, isCallTo("makeSafe")), "l.buf")))
		add("lx_chunk_too_large", innermost(guards(f.Body, returnsLike("ErrChunkTooLarge"))))
		add("lx_ubuf_grow", outermost(mentioning(guards(f.Body, isCallTo("makeSafe")), "uncompressedChunk")))
		add("lx_usize_range", innermost(guards(f.Body, returnsLike("ErrLengthOutOfRange"))))
		add("lx_crc_mismatch", innermost(guards(f.Body, returnsLike("errInvalidChunkCrc"))))
	} else {
		add("lx_nested", nil)
	}
	if f := findFunc(mc, "", "makeSafe"); f != nil {
		add("make_safe_ok", innermost(guards(f.Body, returnsLike("make("))))
	} else {
		add("make_safe_ok", nil)
	}
	// ---- writer bookkeeping
	wr := parse(dir, "writer.go")
	if f := findFunc(wr, "Writer", "WriteMessage"); f != nil {
		add("w_unknown_channel", innermost(guards(f.Body, isErrReturn)))
		add("w_in_chunk", outermost(guards(f.Body, isAssignTo("w.currentChunkEndTime"))))
		add("w_cur_end_upd", innermost(guards(f.Body, isAssignTo("w.currentChunkEndTime"))))
		add("w_cur_start_upd", innermost(guards(f.Body, isAssignTo("w.currentChunkStartTime"))))
		add("w_flush", innermost(guards(f.Body, isCallTo("w.flushActiveChunk"))))
		add("w_st_end_upd", innermost(guards(f.Body, isAssignTo("w.Statistics.MessageEndTime"))))
		add("w_st_start_upd", innermost(guards(f.Body, isAssignTo("w.Statistics.MessageStartTime"))))
	} else {
		add("w_in_chunk", nil)
	}
	return out
}
