module gotrans

go 1.22
