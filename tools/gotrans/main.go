// gotrans - a small translator from go/mcap's record (de)serialisation code to a neutral layout
// description (JSON), from which tools/gen_layout.py generates coq/theories/Layout_gen.v on every run.
//
// For every Parse* function of parse.go (and Message.PopulateFrom) it extracts, in source order, the
// primitive reads `v, offset, err := getXxx(buf, off)` and the binding of struct fields to the variables read.
// For every Write* function of writer.go it extracts, in source order, the primitive writes
// `putXxx(w.msg[...], expr)` / `copy(w.msg[...], expr)` and the opcode passed to writeRecord.
// Anything it does not understand inside such a function (loops, extra calls) is reported in "other" so that
// the generated file changes when the function's structure changes.
package main

import (
	"bytes"
	"encoding/json"
	"fmt"
	"go/ast"
	"go/parser"
	"go/printer"
	"go/token"
	"os"
	"path/filepath"
	"strings"
)

type step struct {
	Var string `json:"var"`
	Fn  string `json:"fn"`
	Off string `json:"off"`
	In  string `json:"in"` // "top" or "loop"
}

type put struct {
	Fn   string `json:"fn"`
	Expr string `json:"expr"`
	In   string `json:"in"`
}

type fn struct {
	Name   string            `json:"name"`
	Reads  []step            `json:"reads,omitempty"`
	Fields map[string]string `json:"fields,omitempty"`
	Order  []string          `json:"field_order,omitempty"`
	Puts   []put             `json:"puts,omitempty"`
	Opcode []string          `json:"opcode,omitempty"`
	Loops  int               `json:"loops"`
}

var fset = token.NewFileSet()

func src(n ast.Node) string {
	var b bytes.Buffer
	_ = printer.Fprint(&b, fset, n)
	return strings.Join(strings.Fields(b.String()), " ")
}

func recvName(d *ast.FuncDecl) string {
	if d.Recv == nil || len(d.Recv.List) == 0 {
		return ""
	}
	t := d.Recv.List[0].Type
	if s, ok := t.(*ast.StarExpr); ok {
		t = s.X
	}
	if id, ok := t.(*ast.Ident); ok {
		return id.Name
	}
	return ""
}

func analyse(d *ast.FuncDecl, name string) fn {
	f := fn{Name: name, Fields: map[string]string{}}
	depth := 0
	var walk func(n ast.Node) bool
	walk = func(n ast.Node) bool {
		switch x := n.(type) {
		case *ast.ForStmt:
			f.Loops++
			depth++
			ast.Inspect(x.Body, walk)
			depth--
			return false
		case *ast.RangeStmt:
			f.Loops++
			depth++
			ast.Inspect(x.Body, walk)
			depth--
			return false
		case *ast.AssignStmt:
			in := "top"
			if depth > 0 {
				in = "loop"
			}
			if len(x.Rhs) == 1 {
				if c, ok := x.Rhs[0].(*ast.CallExpr); ok {
					if id, ok := c.Fun.(*ast.Ident); ok {
						if strings.HasPrefix(id.Name, "get") && len(c.Args) == 2 && len(x.Lhs) >= 1 {
							f.Reads = append(f.Reads, step{Var: src(x.Lhs[0]), Fn: id.Name, Off: src(c.Args[1]), In: in})
						}
						if (strings.HasPrefix(id.Name, "put") || id.Name == "copy") && len(c.Args) == 2 {
							f.Puts = append(f.Puts, put{Fn: id.Name, Expr: src(c.Args[1]), In: in})
						}
					}
				}
				// m.Field = expr (PopulateFrom)
				if sel, ok := x.Lhs[0].(*ast.SelectorExpr); ok && len(x.Lhs) == 1 {
					if id, ok := sel.X.(*ast.Ident); ok && (id.Name == "m" || id.Name == "msg") {
						f.Fields[sel.Sel.Name] = src(x.Rhs[0])
						f.Order = append(f.Order, sel.Sel.Name)
					}
				}
			}
		case *ast.ExprStmt:
			if c, ok := x.X.(*ast.CallExpr); ok {
				if id, ok := c.Fun.(*ast.Ident); ok && (strings.HasPrefix(id.Name, "put") || id.Name == "copy") && len(c.Args) == 2 {
					in := "top"
					if depth > 0 {
						in = "loop"
					}
					f.Puts = append(f.Puts, put{Fn: id.Name, Expr: src(c.Args[1]), In: in})
				}
			}
		case *ast.CallExpr:
			if sel, ok := x.Fun.(*ast.SelectorExpr); ok && sel.Sel.Name == "writeRecord" && len(x.Args) == 3 {
				f.Opcode = append(f.Opcode, src(x.Args[1]))
			}
		case *ast.ReturnStmt:
			for _, r := range x.Results {
				e := r
				if u, ok := e.(*ast.UnaryExpr); ok {
					e = u.X
				}
				if cl, ok := e.(*ast.CompositeLit); ok {
					for _, el := range cl.Elts {
						if kv, ok := el.(*ast.KeyValueExpr); ok {
							k := src(kv.Key)
							if _, seen := f.Fields[k]; !seen {
								f.Order = append(f.Order, k)
							}
							f.Fields[k] = src(kv.Value)
						}
					}
				}
			}
		}
		return true
	}
	ast.Inspect(d.Body, walk)
	return f
}

func main() {
	dir := os.Args[1]
	out := map[string][]fn{}
	all := map[string]interface{}{}
	for _, file := range []string{"parse.go", "writer.go"} {
		af, err := parser.ParseFile(fset, filepath.Join(dir, file), nil, 0)
		if err != nil {
			fmt.Fprintln(os.Stderr, err)
			os.Exit(1)
		}
		for _, decl := range af.Decls {
			d, ok := decl.(*ast.FuncDecl)
			if !ok || d.Body == nil {
				continue
			}
			name := d.Name.Name
			r := recvName(d)
			switch {
			case file == "parse.go" && (strings.HasPrefix(name, "Parse") || name == "PopulateFrom"):
				out["parse"] = append(out["parse"], analyse(d, name))
			case file == "writer.go" && r == "Writer" && (strings.HasPrefix(name, "Write") || name == "writeChunkWithIndexes"):
				out["write"] = append(out["write"], analyse(d, name))
			}
		}
	}
	enc := json.NewEncoder(os.Stdout)
	enc.SetIndent("", " ")
	all["parse"] = out["parse"]
	all["write"] = out["write"]
	all["decisions"] = decisions(dir)
	_ = enc.Encode(all)
}
