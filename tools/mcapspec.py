"""mcapspec.py - an MCAP decoder/validator written from website/docs/spec/index.md.
Shares no code with go/mcap.  Used as the executable property oracle (C05, C06, C08, C01, C16, C18):
it decodes a file, checks the grammar and every pointer/length/size/time/CRC field, and returns the
logical content."""
import struct
import zlib

MAGIC = b"\x89MCAP0\r\n"
OP_NAMES = {1: "header", 2: "footer", 3: "schema", 4: "channel", 5: "message", 6: "chunk", 7: "message_index",
            8: "chunk_index", 9: "attachment", 10: "attachment_index", 11: "statistics", 12: "metadata",
            13: "metadata_index", 14: "summary_offset", 15: "data_end"}


class SpecError(Exception):
    pass


def crc32(b):
    return zlib.crc32(b) & 0xFFFFFFFF


class Rd:
    def __init__(self, b, what):
        self.b = b
        self.o = 0
        self.what = what

    def need(self, n):
        if self.o + n > len(self.b):
            raise SpecError("%s: field extends past record end" % self.what)

    def u8(self):
        self.need(1); v = self.b[self.o]; self.o += 1; return v

    def u16(self):
        self.need(2); v = struct.unpack_from("<H", self.b, self.o)[0]; self.o += 2; return v

    def u32(self):
        self.need(4); v = struct.unpack_from("<I", self.b, self.o)[0]; self.o += 4; return v

    def u64(self):
        self.need(8); v = struct.unpack_from("<Q", self.b, self.o)[0]; self.o += 8; return v

    def raw(self, n):
        self.need(n); v = self.b[self.o:self.o + n]; self.o += n; return v

    def pstr(self):
        return self.raw(self.u32())

    def pmap(self):
        n = self.u32()
        end = self.o + n
        if end > len(self.b):
            raise SpecError("%s: map extends past record end" % self.what)
        m = []
        while self.o < end:
            k = self.pstr(); v = self.pstr(); m.append((k, v))
        if self.o != end:
            raise SpecError("%s: map length mismatch" % self.what)
        keys = [k for k, _ in m]
        if len(set(keys)) != len(keys):
            raise SpecError("%s: duplicate map key" % self.what)
        return m

    def rest(self):
        v = self.b[self.o:]; self.o = len(self.b); return v


def parse_body(op, body):
    r = Rd(body, OP_NAMES.get(op, hex(op)))
    if op == 1:
        return {"profile": r.pstr(), "library": r.pstr()}
    if op == 2:
        return {"summary_start": r.u64(), "summary_offset_start": r.u64(), "crc": r.u32()}
    if op == 3:
        d = {"id": r.u16(), "name": r.pstr(), "encoding": r.pstr()}
        d["data"] = r.raw(r.u32()); return d
    if op == 4:
        return {"id": r.u16(), "schema_id": r.u16(), "topic": r.pstr(), "message_encoding": r.pstr(), "metadata": r.pmap()}
    if op == 5:
        return {"channel_id": r.u16(), "sequence": r.u32(), "log_time": r.u64(), "publish_time": r.u64(), "data": r.rest()}
    if op == 6:
        d = {"start": r.u64(), "end": r.u64(), "usize": r.u64(), "crc": r.u32(), "compression": r.pstr()}
        n = r.u64()
        d["records"] = r.raw(n) if n <= len(body) else r.raw(len(body) + 1)
        if r.o != len(body):
            raise SpecError("chunk: trailing bytes after records")
        return d
    if op == 7:
        d = {"channel_id": r.u16()}
        n = r.u32(); end = r.o + n; es = []
        if n % 16 or end > len(body):
            raise SpecError("message_index: bad entries length")
        while r.o < end:
            es.append((r.u64(), r.u64()))
        d["entries"] = es; return d
    if op == 8:
        d = {"start": r.u64(), "end": r.u64(), "offset": r.u64(), "length": r.u64()}
        n = r.u32(); end = r.o + n; offs = []
        if n % 10 or end > len(body):
            raise SpecError("chunk_index: bad offsets length")
        while r.o < end:
            offs.append((r.u16(), r.u64()))
        d["mi_offsets"] = offs
        d.update({"mi_length": r.u64(), "compression": r.pstr(), "csize": r.u64(), "usize": r.u64()})
        return d
    if op == 9:
        d = {"log_time": r.u64(), "create_time": r.u64(), "name": r.pstr(), "media_type": r.pstr()}
        n = r.u64()
        if n > len(body):
            raise SpecError("attachment: data size beyond record")
        d["data"] = r.raw(n); d["crc"] = r.u32()
        if r.o != len(body):
            raise SpecError("attachment: trailing bytes")
        return d
    if op == 10:
        return {"offset": r.u64(), "length": r.u64(), "log_time": r.u64(), "create_time": r.u64(), "data_size": r.u64(),
                "name": r.pstr(), "media_type": r.pstr()}
    if op == 11:
        d = {"messages": r.u64(), "schemas": r.u16(), "channels": r.u32(), "attachments": r.u32(), "metadata": r.u32(),
             "chunks": r.u32(), "start": r.u64(), "end": r.u64()}
        n = r.u32(); end = r.o + n; cs = []
        if n % 10 or end > len(body):
            raise SpecError("statistics: bad counts length")
        while r.o < end:
            cs.append((r.u16(), r.u64()))
        d["counts"] = cs; return d
    if op == 12:
        return {"name": r.pstr(), "metadata": r.pmap()}
    if op == 13:
        return {"offset": r.u64(), "length": r.u64(), "name": r.pstr()}
    if op == 14:
        return {"op": r.u8(), "start": r.u64(), "length": r.u64()}
    if op == 15:
        return {"crc": r.u32()}
    return {"raw": body}


def frames(buf, base, what):
    """Split buf into records: list of (offset, op, body)."""
    res = []
    o = 0
    while o < len(buf):
        if o + 9 > len(buf):
            raise SpecError("%s: truncated record head at %d" % (what, base + o))
        op = buf[o]
        n = struct.unpack_from("<Q", buf, o + 1)[0]
        if o + 9 + n > len(buf):
            raise SpecError("%s: record at %d (op %d) extends past end" % (what, base + o, op))
        res.append((base + o, op, buf[o + 9:o + 9 + n]))
        o += 9 + n
    return res


def decode(data, plain_of=None, skip_magic=False, strict=True):
    """Decode and validate. plain_of(compression: bytes, payload: bytes) -> uncompressed bytes or None.
    Returns a dict with the logical content and the record list. Raises SpecError on any violation."""
    pos = 0
    if not skip_magic:
        if data[:8] != MAGIC:
            raise SpecError("missing leading magic")
        pos = 8
    if data[-8:] != MAGIC:
        raise SpecError("missing trailing magic")
    recs = frames(data[pos:len(data) - 8], pos, "file")
    if not recs or recs[0][1] != 1:
        raise SpecError("first record is not a header")
    if recs[-1][1] != 2:
        raise SpecError("last record is not a footer")
    if len(recs[-1][2]) != 20:
        raise SpecError("footer body is not 20 bytes")
    out = {"header": parse_body(1, recs[0][2]), "schemas": {}, "channels": {}, "messages": [], "attachments": [],
           "metadata": [], "chunks": [], "summary": {}, "records": []}
    # ---- data section ----
    i = 1
    known_schemas = {}
    known_channels = {}
    last_chunk = None
    dataend_idx = None

    def see_schema(s):
        if s["id"] == 0:
            raise SpecError("schema with id 0")
        if s["id"] in known_schemas and known_schemas[s["id"]] != s and strict:
            raise SpecError("schema %d redefined differently" % s["id"])
        known_schemas.setdefault(s["id"], s)

    def see_channel(c):
        if c["schema_id"] != 0 and c["schema_id"] not in known_schemas:
            raise SpecError("channel %d before its schema %d" % (c["id"], c["schema_id"]))
        if c["id"] in known_channels and known_channels[c["id"]] != c and strict:
            raise SpecError("channel %d redefined differently" % c["id"])
        known_channels.setdefault(c["id"], c)

    def see_message(m, where):
        if m["channel_id"] not in known_channels:
            raise SpecError("message on channel %d before its channel record" % m["channel_id"])
        out["messages"].append(dict(m, where=where))

    while i < len(recs):
        off, op, body = recs[i]
        if op == 15:
            dataend_idx = i
            break
        p = parse_body(op, body)
        if op == 3:
            see_schema(p); last_chunk = None
        elif op == 4:
            see_channel(p); last_chunk = None
        elif op == 5:
            see_message(p, ("top", off)); last_chunk = None
        elif op == 6:
            comp = p["compression"]
            if comp == b"":
                plain = p["records"]
            else:
                plain = plain_of(comp, p["records"]) if plain_of else None
                if plain is None:
                    raise SpecError("chunk at %d: cannot decompress (%r)" % (off, comp))
            if len(plain) != p["usize"]:
                raise SpecError("chunk at %d: uncompressed_size %d but %d bytes" % (off, p["usize"], len(plain)))
            if p["crc"] != 0 and p["crc"] != crc32(plain):
                raise SpecError("chunk at %d: uncompressed_crc mismatch" % off)
            inner = frames(plain, 0, "chunk at %d" % off)
            times = []
            msgs = []
            for ioff, iop, ibody in inner:
                ip = parse_body(iop, ibody)
                if iop == 3:
                    see_schema(ip)
                elif iop == 4:
                    see_channel(ip)
                elif iop == 5:
                    see_message(ip, ("chunk", off, ioff)); times.append(ip["log_time"]); msgs.append((ip["channel_id"], ip["log_time"], ioff))
                elif iop < 0x80:
                    raise SpecError("chunk at %d contains record with opcode %d" % (off, iop))
            exp = (min(times), max(times)) if times else (0, 0)
            if (p["start"], p["end"]) != exp:
                raise SpecError("chunk at %d: time range %s, true %s" % (off, (p["start"], p["end"]), exp))
            last_chunk = {"offset": off, "length": 9 + len(body), "start": p["start"], "end": p["end"],
                          "compression": comp, "csize": len(p["records"]), "usize": p["usize"], "crc": p["crc"],
                          "msgs": msgs, "mi": [], "mi_bytes": 0, "plain": plain, "n_inner": len(inner)}
            out["chunks"].append(last_chunk)
        elif op == 7:
            if last_chunk is None:
                raise SpecError("message index at %d does not follow a chunk" % off)
            exp = [(t, o) for (c, t, o) in last_chunk["msgs"] if c == p["channel_id"]]
            if p["entries"] != exp:
                raise SpecError("message index at %d for channel %d: entries %s, true %s" % (off, p["channel_id"], p["entries"][:4], exp[:4]))
            if any(c == p["channel_id"] for c, _ in last_chunk["mi"]):
                raise SpecError("two message indexes for channel %d after chunk" % p["channel_id"])
            last_chunk["mi"].append((p["channel_id"], off))
            last_chunk["mi_bytes"] += 9 + len(body)
        elif op == 9:
            if p["crc"] != 0 and p["crc"] != crc32(body[:-4]):
                raise SpecError("attachment at %d: crc mismatch" % off)
            out["attachments"].append(dict(p, offset=off, length=9 + len(body))); last_chunk = None
        elif op == 12:
            out["metadata"].append(dict(p, offset=off, length=9 + len(body))); last_chunk = None
        elif op in (1, 2, 8, 10, 11, 13, 14):
            raise SpecError("%s record in data section at %d" % (OP_NAMES[op], off))
        elif op == 0:
            raise SpecError("opcode 0 at %d" % off)
        # unknown opcodes are skipped
        i += 1
    if dataend_idx is None:
        raise SpecError("no data end record")
    de_off, _, de_body = recs[dataend_idx]
    de = parse_body(15, de_body)
    if de["crc"] != 0 and de["crc"] != crc32(data[:de_off]):
        raise SpecError("data_section_crc mismatch")
    out["data_end"] = dict(de, offset=de_off)
    for ch in out["chunks"]:
        chans = sorted(set(c for c, _, _ in ch["msgs"]))
        if ch["mi"] and sorted(c for c, _ in ch["mi"]) != chans:
            raise SpecError("chunk at %d: message indexes for %s, channels with messages %s" % (ch["offset"], sorted(c for c, _ in ch["mi"]), chans))
    # ---- summary + summary offsets ----
    foot_off, _, foot_body = recs[-1]
    foot = parse_body(2, foot_body)
    srecs = recs[dataend_idx + 1:-1]
    summ = [r for r in srecs if r[1] != 14]
    soffs = [r for r in srecs if r[1] == 14]
    if srecs and soffs and srecs.index(soffs[0]) != len(summ):
        raise SpecError("summary offset records are not after the summary section")
    groups = []
    for off, op, body in summ:
        if op not in (3, 4, 8, 10, 11, 13) and op < 0x80:
            raise SpecError("record %d in summary section at %d" % (op, off))
        if groups and groups[-1][0] == op:
            groups[-1][2] = off + 9 + len(body)
        else:
            if any(g[0] == op for g in groups):
                raise SpecError("summary records of opcode %d are not contiguous" % op)
            groups.append([op, off, off + 9 + len(body)])
    exp_ss = summ[0][0] if summ else 0
    if foot["summary_start"] != exp_ss:
        raise SpecError("footer summary_start %d, true %d" % (foot["summary_start"], exp_ss))
    exp_sos = soffs[0][0] if soffs else 0
    if foot["summary_offset_start"] != exp_sos:
        raise SpecError("footer summary_offset_start %d, true %d" % (foot["summary_offset_start"], exp_sos))
    crc_start = summ[0][0] if summ else (soffs[0][0] if soffs else foot_off)
    if foot["crc"] != 0 and foot["crc"] != crc32(data[crc_start:foot_off + 9 + 16]):
        raise SpecError("summary_crc mismatch")
    so_parsed = [parse_body(14, b) for _, _, b in soffs]
    if soffs:
        exp = [(g[0], g[1], g[2] - g[1]) for g in groups if g[0] < 0x80]
        got = [(s["op"], s["start"], s["length"]) for s in so_parsed]
        if sorted(got) != sorted(exp):
            raise SpecError("summary offsets %s, true groups %s" % (got, exp))
    S = {"schemas": [], "channels": [], "chunk_indexes": [], "attachment_indexes": [], "metadata_indexes": [],
         "statistics": None, "group_order": [g[0] for g in groups], "summary_offsets": so_parsed}
    for off, op, body in summ:
        if op >= 0x80:
            continue
        p = parse_body(op, body)
        if op == 3:
            if known_schemas.get(p["id"]) != p and strict:
                raise SpecError("summary schema %d differs from data section" % p["id"])
            S["schemas"].append(p)
        elif op == 4:
            if known_channels.get(p["id"]) != p and strict:
                raise SpecError("summary channel %d differs from data section" % p["id"])
            S["channels"].append(p)
        elif op == 8:
            m = [c for c in out["chunks"] if c["offset"] == p["offset"]]
            if not m:
                raise SpecError("chunk index points at %d where no chunk starts" % p["offset"])
            c = m[0]
            exp = {"start": c["start"], "end": c["end"], "offset": c["offset"], "length": c["length"],
                   "mi_offsets": sorted(c["mi"]), "mi_length": c["mi_bytes"], "compression": c["compression"],
                   "csize": c["csize"], "usize": c["usize"]}
            got = dict(p, mi_offsets=sorted(p["mi_offsets"]))
            if got != exp:
                raise SpecError("chunk index for chunk at %d: %s, true %s" % (p["offset"], got, exp))
            S["chunk_indexes"].append(p)
        elif op == 10:
            m = [a for a in out["attachments"] if a["offset"] == p["offset"]]
            if not m:
                raise SpecError("attachment index points at %d where no attachment starts" % p["offset"])
            a = m[0]
            exp = {"offset": a["offset"], "length": a["length"], "log_time": a["log_time"], "create_time": a["create_time"],
                   "data_size": len(a["data"]), "name": a["name"], "media_type": a["media_type"]}
            if p != exp:
                raise SpecError("attachment index %s, true %s" % (p, exp))
            S["attachment_indexes"].append(p)
        elif op == 13:
            m = [a for a in out["metadata"] if a["offset"] == p["offset"]]
            if not m:
                raise SpecError("metadata index points at %d where no metadata starts" % p["offset"])
            a = m[0]
            if p != {"offset": a["offset"], "length": a["length"], "name": a["name"]}:
                raise SpecError("metadata index %s does not describe record at %d" % (p, a["offset"]))
            S["metadata_indexes"].append(p)
        elif op == 11:
            if S["statistics"] is not None:
                raise SpecError("two statistics records")
            S["statistics"] = p
    for name, idxs, items in (("chunk", S["chunk_indexes"], out["chunks"]), ("attachment", S["attachment_indexes"], out["attachments"]),
                              ("metadata", S["metadata_indexes"], out["metadata"])):
        if idxs and sorted(x["offset"] for x in idxs) != sorted(x["offset"] for x in items):
            raise SpecError("%s indexes do not cover every %s record exactly once" % (name, name))
    out["summary"] = S
    out["footer"] = dict(foot, offset=foot_off)
    out["schemas"] = known_schemas
    out["channels"] = known_channels
    return out


def true_statistics(d):
    """Aggregates of the decoded content, as the statistics record should state them."""
    msgs = d["messages"]
    counts = {}
    for m in msgs:
        counts[m["channel_id"]] = counts.get(m["channel_id"], 0) + 1
    times = [m["log_time"] for m in msgs]
    return {"messages": len(msgs), "schemas": len(d["schemas"]), "channels": len(d["channels"]),
            "attachments": len(d["attachments"]), "metadata": len(d["metadata"]), "chunks": len(d["chunks"]),
            "start": min(times) if times else 0, "end": max(times) if times else 0, "counts": sorted(counts.items())}
