#!/usr/bin/env python3
"""mk_manifest.py - (re)generate MANIFEST.json from the per-property table below."""
import json
import os
import subprocess

VERIF = os.path.dirname(os.path.dirname(os.path.abspath(__file__)))

TB = ("Trusted base: Coq 8.16.1 kernel (full .vo build, vm_compute, no native_compute, no axioms: every property theorem is "
      "'Closed under the global context'); the hand-written Gallina model (coq/theories) tied to /repo by differential execution on every run "
      "(extraction with ExtrOcamlBasic only + hand-written OCaml driver; Go harness with build tag verif; Python generators/oracles); "
      "third-party codecs, SQLite, the Go runtime/stdlib and the Python package are oracles or instance-checked, not verified. ")

P = {
 "C01": ("Theorems C01_* (properties/C01.v): the bytes the writer model emits are the rendering of its item trace (C06_running), the lexer model returns exactly the events of a well-formed item list (lex_render), and every record body parses back to the record encoded (parse_enc_*). Tie: 200+ random workloads x configurations per run written by the real writer and read back by the real lexer / Messages(UsingIndex(false)) must agree event by event with the models and with the call list (field by field, in order); returned values re-checked after the run for aliasing.",
         "returned-value aliasing is observed by the harness only (the model is immutable); codecs are oracles whose round-trip is checked per chunk."),
 "C02": ("Theorems C02_* (properties/C02.v) over the Reader model: Messages() picks the index only when the summary has chunk indexes and channel records (or statistics say 0 messages) and otherwise scans or errors (never a silent subset); file-order indexed read = filter of the chunk concatenation (C04_exact_abstract via the refinement indexed_read_refines). Tie: per run 150 written files x {Info, default, UsingIndex(false), LogTime, Reverse, every attachment/metadata fetched by offset, metadata callbacks} compared with the model; oracle: indexed == scan, never fewer, random access == decoded content.",
         "byte-level summary/chunk loading is tied by correspondence (loader_ok is an explicit hypothesis of the refinement theorem, proved for a concrete file and checked instance-wise); xor-compressed files cannot be read through Reader (no hook) and must error."),
 "C03": ("Theorems C03_logtime, C03_reverse, C03_deterministic, C03_load_order_*, C03_indexed_time (properties/C03.v), proved for all chunk arrangements with no bound: output is a permutation of the selected messages, sorted (resp. reverse sorted), in-chunk ties keep file order (reverse when reading in reverse), equals the stable sort of the load-order concatenation, and is independent of the summary order of chunk indexes; i_next of the byte-level reader refines the abstract run under loader_ok. Tie: per run 200 files (reference-encoder arrangements with overlapping/nested/backwards/empty chunks and tie-heavy or extreme timestamps, plus real-writer files) read in all orders twice, compared with the iterator model; oracle: sortedness, exactly-once, tie order, repeatability.",
         "hypothesis chunks_wf (chunk ranges bound their messages) is what C05 proves of the writer; loader_ok ties the byte-level loader (instance-checked)."),
 "C04": ("Theorems C04_exact_abstract, C04_pruning_sound, C04_default_all, C04_spellings, C04_window_errors, C04_before_zero_refuted (properties/C04.v). Tie: per run ~50 files x windows with boundaries at message/chunk times, 0, 2^64-1, off-by-one, start=end x topic subsets x 4 spellings x {indexed file order, scan, LogTime, Reverse} compared with the model; oracle: result == filter(start<=t<end, topic in set) of the independently decoded file.",
         "known finding F4d: the deprecated Before(0) cannot express an empty window (Finalize ignores End<=0) - stated as C04_before_zero_refuted; the generator never asks for Before(0)."),
 "C05": ("Theorems C05_* (properties/C05.v): file = rendering of the item trace, w_size exact, and every attachment/metadata/chunk index, message index entry, chunk header, summary offset and footer field designates exactly the bytes/values it describes (see file for which parts are proved in full). Tie: per run 360 workloads (incl. corner corpus) written by the real writer compared byte by byte and write by write with the model; oracle: an independent spec decoder (tools/mcapspec.py) validates grammar and every pointer/length/size/time/CRC field and the content against the call list.",
         "compression is an oracle (payload accepted only if the codec called directly decompresses it to the model's plaintext)."),
 "C06": ("Theorems C06_running, C06_structure, C06_data_crc, C06_summary_crc, C06_chunk_crc, C06_attach_crc (properties/C06.v) for all error-free runs ending in Close: each CRC field equals crc32 of exactly the spec's byte range (expressed through the rendered item trace), 0 when disabled; crc32 is proved equal to the bitwise CRC-32/IEEE definition (crc_tab_correct). Tie: per run 360 workloads byte-compared with the model; oracle: every CRC field of every file recomputed with zlib.crc32.",
         "hypotheses (error-free, single Close) are necessary: see DESIGN."),
 "C07": ("Theorems C07_* (properties/C07.v) on crc_detects_byte_error (any single-byte change of a buffer of any length changes CRC-32): a damaged uncompressed chunk never yields its records before an InvalidChunkCrc error / invalid-chunk token; general payload replacement with the explicit crc_collision disjunct; attachment content damage makes computed != parsed CRC. Tie: per run ~6000 damaged files (every payload byte of every chunk flipped, random overwrites and swaps, every attachment content byte) lexed with ValidateChunkCRCs by library and model; oracle: original output or error no later than the damaged chunk.",
         "for zstd/lz4 the decoders report a damaged frame checksum at a timing-dependent point (observed), so compressed cases are decided by the property oracle alone; detection is up to CRC-32 collisions of the decompressed bytes."),
 "C08": ("Theorems C08_writer_statistics, C08_statistics_record (properties/C08.v): for every error-free run the Statistics fields equal simple folds over the call list (counts, per-channel counts, distinct schema/channel ids, min/max log time, chunk count = number of chunk indexes) and the record written by Close carries them. Tie: per run 360 workloads: Writer.Statistics, statistics record, and Reader.Info of every produced file compared with the models; oracle: aggregates recomputed from the independently decoded file; Info lists every summary record.",
         "counter widths (uint64/uint32/uint16) are not reachable by generated workloads; statistics over-count after a failed write (outside the fault-free quantifier)."),
 "C09": ("Theorems C09_* (properties/C09.v): for every well-formed file and every cut position the lexer model returns a prefix of the original events (last attachment possibly with fewer data bytes), never crashes, and all items completely before the cut are returned. Tie: per run 24 files x every cut position (~20k cuts), none/zstd/lz4/xor, validation on/off, seekable or not, compared event by event; oracle: prefix + completeness of fully written chunks.",
         "codec_prefix_ok (a streaming decoder fed a truncated payload delivers a prefix then ends) is an explicit hypothesis, recorded per truncated payload by calling the codec directly."),
 "C10": ("Theorems C10_parse_total, C10_lexer_no_panic, C10_lexer_total, C10_alloc_ceiling (properties/C10.v) for ALL byte strings, options and oracles: parsers and lexer return Ok/Err only, never run out of fuel under an explicit bound, every allocation request is < 2^31-1 and within MaxRecordSize / 2*MaxDecompressedChunkSize. Tie: per run ~700 mutated files + a corpus of 24 hand-made hostile inputs through NewLexer/Next (4 option sets), NewReader/Info/Messages (all modes), GetMetadata/GetAttachmentReader, every Parse*, each Go run isolated (8 GiB cap, 60 s deadline, allocation accounting), compared with the models.",
         "real RSS, wall-clock and stack depth are measured, not proved; decoder internals are outside the model; indexed reader/Info totality is tied by correspondence only."),
 "C11": ("Theorems C11_* (properties/C11.v): parse_enc_*: every extensible record parses to the same value with arbitrary trailing bytes; unknown opcodes produce no event (item_events) so lex_render gives the same events for a decorated item list. Tie: per run 80 contents rendered plain and decorated (unknown records everywhere, padding incl. 01 ff ff) x 7 read modes; oracle: decorated == plain (offsets removed).",
         "Info/indexed reads of decorated files are tied by correspondence."),
 "C12": ("Theorems C12_* (properties/C12.v): the lexer's message/attachment/metadata events of a well-formed item list depend only on the content (chunk partition invisible). Tie: per run 60 contents x 3 layouts (chunk partitions, schema/channel placement, summary group permutations, optional sections) x 7 read modes compared with the models and with each other.",
         "summary-order independence of Info/indexed reads is tied by correspondence (the order-dependent pruning was a defect, fixed: d9f3b5c)."),
 "C13": ("Theorems enc_map_perm, C13_map_order (properties/C13.v): calls that differ only in the insertion order of (distinct-key) maps give identical NewWriter/call results and identical destination writes, for every option set and fault. The model is a Coq function, so repetition determinism is by construction. Tie: per run 120 workloads x 3 insertion orders byte-compared with the model, plus 40 workloads re-run 3x and 16-way concurrently under GOMAXPROCS 1,2,4,16.",
         "goroutine schedules are sampled, not enumerated (partial for the schedule quantifier); race detector build is thorough-tier only."),
 "C14": ("Theorems C14_error_reported, C14_prefix, C14_permanent_stops, C14_source (properties/C14.v) for every option set, call list and fault: the call performing the failing write returns an error, accepted bytes up to the fault are a prefix of the fault-free output, nothing is accepted after a permanent fault, a failing/short/long attachment source is an error. Tie: per run every write index of 40 workloads failed in two modes (~5000 fault runs) + 40 attachment-source faults, compared with the model (results, write counts, accepted bytes).",
         "a sink returning a short count with nil error violates io.Writer and is outside the property; 'no panic' is by typing in the model and observed on the Go side."),
 "C15": ("Theorems C15_* (properties/C15.v): io.ReadFull over any fragment stream equals rd_full over the concatenation (read_full_norm), hence lex results are fragmentation independent; with a failing source the events are a prefix and the end is the injected error (statement and side conditions in the file). Tie: per run 16 files x {1-byte, halving, random, data+EOF} x seekable/not + an injected error at every byte position, compared with the model.",
         "decoders' propagation of source errors is an explicit hypothesis, recorded per instance; the indexed reader over failing ReadSeekers is tied through C10/C02 streams."),
 "C16": ("Pivot theorems (properties/C16.v): Go-written bytes are the rendering of the writer's item trace (C06_running) and the Go lexer model returns that trace's events (lex_render); the Python package is tied instance-wise on every run: 120 Go-written uncompressed files read by python/mcap NonSeekingReader and SeekingReader (CRC validation on, log-time order), 120 Python-written files decoded by the independent decoder and read by the Go lexer/scan/indexed/log-time readers and the models.",
         "the Python implementation is not modelled (partial by nature); valid UTF-8 strings only; no compression codecs for Python here."),
 "C17": ("Theorems C17_writer, C17_reader (properties/C17.v, finite domain, vm_compute): for all 208 unpadded vectors the writer model driven by the tool's options/calls emits exactly the expected binary, and for all 416 vectors the lexer model returns exactly the expected record stream. The vectors are regenerated from tests/conformance/data on every run. Tie: the reference encoder (port of generate-inputs.ts) must reproduce the sha256+size pinned in each LFS pointer (416/416); test-write-conformance built from the tree must emit those bytes (208); test-read-conformance streamed (416) and indexed (16 supported) must print the expected JSON.",
         "sha256/size pins come from the Git-LFS pointers; the expected bytes inside Coq come from the Python port validated against those pins on every run."),
 "C18": ("Theorems C18_* (properties/C18.v): the bag walk never runs out of fuel / helpers never fail structurally; for every well-formed abstract bag the conversion makes exactly expected_calls (one CMessage per bag message in order with the bag time in ns, one schema per type/md5, channel per connection record) so the output is W(expected_calls). Tie: per run 80 generated bags (none/lz4/bz2/unchunked) x writer options + ~250 corruptions + hand-made hostile records, each in an isolated child, output bytes compared with the bag+writer model; oracle: independent decoder + content check; invalid input -> error.",
         "db3 half (SQLite, file system) is tied by the harness only (partial); lz4/bz2 decoders are oracles."),
 "C19": ("Theorems C19_total, C19_tree (properties/C19.v): parse_msgdef never panics/exits/runs out of fuel for any input (cycle check bounds the depth), and returns tree_of g for every well-formed acyclic rendered graph. Tie: per run 600 rendered graphs (3 styles) compared with the generating graph and the model + hostile/mutated/random definitions in isolated children.",
         "exponential expansion of shared nested types is inherent to the tree representation and not checked; non-canonical whitespace styles are covered by correspondence."),
 "C20": ("Theorems C20_slots_logtime, C20_slots_reverse, C20_slots_file, C20_max_overlap_meaning, C20_indexed_slots (properties/C20.v): at every reachable state the number of decompressed chunk slots is <= max(1, max_overlap) (1 in file order), for the abstract run and, through the refinement, for the byte-level iterator. Tie: per run 60 files with overlap depth 1..8 x 5 read modes; the verif hook reports slots after every Next, compared with the model's maxima.",
         "hypotheses ranges_ok (start<=end) and distinct offsets are needed (counterexample in Iter.v); attachment streaming memory and real buffer sizes are measured only (partial)."),
}

TECH = "machine-checked proof in Coq 8.16 (theorems over an executable Gallina model) + differential correspondence model vs implementation"

CLAIMED = os.environ.get("VERIF_CLAIMED", "").split(",") if os.environ.get("VERIF_CLAIMED") else None


def main():
    claimed = CLAIMED
    if claimed is None:
        proj = open(os.path.join(VERIF, "coq", "_CoqProject")).read().split()
        claimed = [p for p in sorted(P) if "properties/%s.v" % p in proj and os.path.exists(os.path.join(VERIF, "coq", "properties", p + ".v"))]
    commits = subprocess.run(["git", "-C", "/repo", "log", "--format=%H %s"], capture_output=True, text=True).stdout.splitlines()
    hook_commits = [c.split(" ")[0] for c in commits if "verif hooks" in c]
    m = {
        "version": 1,
        "setup_cmd": "sh tools/setup.sh",
        "hooks": {"guard": "verif", "enable": "go build -tags verif (harness module with replace => /repo/go/mcap, /repo/go/ros)",
                  "baseline_off_cmd": "python3 tools/baseline.py", "source_commits": hook_commits, "add_only": True},
        "engines": [{"name": "coq-model", "path": "coq", "serves_properties": sorted(P), "kind_free_text": "Gallina model + theorems, extracted to OCaml for execution"},
                    {"name": "go-harness", "path": "harness", "serves_properties": sorted(P), "kind_free_text": "executes the same workload scripts on the real library (tag verif)"}],
        "checks": [],
        "not_applicable": [],
        "notes": "Every check: make (Coq, no-op when current) -> regenerate constants/vectors from /repo -> extract+compile the model -> rebuild the harness from /repo's working tree -> run corpus + generated stream through implementation and model -> property oracle on the implementation's output -> evidence. known_findings.txt lists fixed defects (suppress nothing) and findings (keyed).",
    }
    for p in sorted(P):
        text, note = P[p]
        if p in claimed:
            m["checks"].append({
                "property_id": p, "quick_cmd": "./check %s --tier quick" % p, "thorough_cmd": "./check %s --tier thorough" % p,
                "evidence_file": "evidence/%s.json" % p, "replay_cmd_template": "./check %s --replay {path}" % p, "engine": "coq-model",
                "level_claimed": {"category": "proof", "text": text, "design_ref": "DESIGN.md section 6 (%s) and section 0 (as built)" % p},
                "level_note": TB + note, "technique": TECH})
        else:
            m["not_applicable"].append({"property_id": p, "reason": "check implemented and green on correspondence+oracle; its theorem file is still being proved, so the property is not claimed yet"})
    json.dump(m, open(os.path.join(VERIF, "MANIFEST.json"), "w"), indent=1)
    print("claimed:", claimed)


if __name__ == "__main__":
    main()
