"""conformance.py - the cross-language conformance matrix: port of tests/conformance/scripts/generate-inputs.ts
(reference encoder, incl. the 'pad' variants), expectation loading, and the derived expectations."""
import glob
import hashlib
import json
import os
import struct

import mcapenc as E

PAD = b"\x01\xff\xff"


def vectors(repo):
    base = os.path.join(repo, "tests/conformance/data")
    res = []
    for jf in sorted(glob.glob(os.path.join(base, "*", "*.json"))):
        d = json.load(open(jf))
        ptr = open(jf[:-5] + ".mcap", "rb").read()
        sha = size = None
        if ptr.startswith(b"version https://git-lfs"):
            for line in ptr.decode().splitlines():
                if line.startswith("oid sha256:"):
                    sha = line[11:]
                if line.startswith("size "):
                    size = int(line[5:])
        res.append({"name": os.path.basename(jf)[:-5], "json": jf, "records": d["records"], "features": d["meta"]["variant"]["features"],
                    "sha": sha, "size": size, "raw_mcap": None if sha else ptr})
    return res


def fields(rec):
    return dict((k, v) for k, v in rec["fields"])


def b_of(lst):
    return bytes(int(x) for x in lst)


def input_records(v):
    """the writer-call records of a vector: everything before DataEnd except the header"""
    out = []
    for r in v["records"]:
        if r["type"] == "DataEnd":
            break
        out.append(r)
    return out


def reference_bytes(v):
    """port of generateFile(features, records)"""
    feats = set(v["features"])
    pad = PAD if "pad" in feats else b""
    out = bytearray(E.MAGIC)
    out += E.frame(1, E.pstr(b"") + E.pstr(b"") + pad)
    use_chunk = "ch" in feats
    chunk = bytearray()
    chunk_mi = {}      # channel -> list, in insertion order
    cstart = cend = 0
    nmsg_chunk = 0
    md_idx, att_idx, chunk_idx = [], [], []
    counts = {}
    nmsg = nch = nsc = natt = nmd = 0
    tmin = tmax = None
    recs = [r for r in input_records(v) if r["type"] != "Header"]

    def enc_schema(f, p): return E.u16(int(f["id"])) + E.pstr(f["name"].encode()) + E.pstr(f["encoding"].encode()) + E.pstr(b_of(f["data"])) + p
    def enc_channel(f, p): return (E.u16(int(f["id"])) + E.u16(int(f["schema_id"])) + E.pstr(f["topic"].encode()) + E.pstr(f["message_encoding"].encode())
                                   + E.pmap([(k.encode(), val.encode()) for k, val in f["metadata"].items()]) + p)
    def enc_message(f): return E.u16(int(f["channel_id"])) + E.u32(int(f["sequence"])) + E.u64(int(f["log_time"])) + E.u64(int(f["publish_time"])) + b_of(f["data"])
    for r in recs:
        f = fields(r)
        t = r["type"]
        if t == "Schema":
            nsc += 1
            if use_chunk:
                chunk += E.frame(3, enc_schema(f, b""))
            else:
                out += E.frame(3, enc_schema(f, pad))
        elif t == "Channel":
            nch += 1
            if use_chunk:
                if "mx" in feats:
                    chunk_mi.setdefault(int(f["id"]), [])
                chunk += E.frame(4, enc_channel(f, b""))
            else:
                out += E.frame(4, enc_channel(f, pad))
        elif t == "Message":
            nmsg += 1
            cid, lt = int(f["channel_id"]), int(f["log_time"])
            counts[cid] = counts.get(cid, 0) + 1
            if use_chunk:
                if nmsg_chunk == 0 or lt < cstart:
                    cstart = lt
                if nmsg_chunk == 0 or lt > cend:
                    cend = lt
                if "mx" in feats:
                    chunk_mi.setdefault(cid, []).append((lt, len(chunk)))
                nmsg_chunk += 1
                chunk += E.frame(5, enc_message(f))
            else:
                out += E.frame(5, enc_message(f))
            tmin = lt if tmin is None else min(tmin, lt)
            tmax = lt if tmax is None else max(tmax, lt)
        elif t == "Attachment":
            natt += 1
            off = len(out)
            body = E.u64(int(f["log_time"])) + E.u64(int(f["create_time"])) + E.pstr(f["name"].encode()) + E.pstr(f["media_type"].encode()) + E.u64(len(b_of(f["data"]))) + b_of(f["data"])
            body += E.u32(E.crc32(body)) + pad
            out += E.frame(9, body)
            if "ax" in feats:
                att_idx.append((off, 9 + len(body), f))
        elif t == "Metadata":
            nmd += 1
            off = len(out)
            body = E.pstr(f["name"].encode()) + E.pmap([(k.encode(), val.encode()) for k, val in f["metadata"].items()]) + pad
            out += E.frame(12, body)
            if "mdx" in feats:
                md_idx.append((off, 9 + len(body), f))
    if use_chunk:
        coff = len(out)
        plain = bytes(chunk)
        body = E.u64(cstart) + E.u64(cend) + E.u64(len(plain)) + E.u32(E.crc32(plain)) + E.pstr(b"") + E.u64(len(plain)) + plain
        out += E.frame(6, body)
        clen = len(out) - coff
        offs = []
        milen = 0
        for cid, es in chunk_mi.items():
            offs.append((cid, len(out)))
            eb = b"".join(E.u64(t) + E.u64(o) for t, o in es)
            rec = E.frame(7, E.u16(cid) + E.u32(len(eb)) + eb + pad)
            out += rec
            milen += len(rec)
        if "chx" in feats:
            chunk_idx.append((cstart, cend, coff, clen, offs, milen, len(plain)))
    out += E.frame(15, E.u32(E.crc32(bytes(out))))
    summary_start = len(out)
    groups = []
    g0 = len(out)
    if "rsh" in feats:
        for r in recs:
            if r["type"] == "Schema":
                out += E.frame(3, enc_schema(fields(r), pad))
    groups.append((3, g0, len(out) - g0))
    g0 = len(out)
    if "rch" in feats:
        for r in recs:
            if r["type"] == "Channel":
                out += E.frame(4, enc_channel(fields(r), pad))
    groups.append((4, g0, len(out) - g0))
    g0 = len(out)
    if "st" in feats:
        cb = b"".join(E.u16(c) + E.u64(n) for c, n in counts.items())
        out += E.frame(11, E.u64(nmsg) + E.u16(nsc) + E.u32(nch) + E.u32(natt) + E.u32(nmd) + E.u32(1 if use_chunk else 0)
                       + E.u64(tmin or 0) + E.u64(tmax or 0) + E.u32(len(cb)) + cb + pad)
    groups.append((11, g0, len(out) - g0))
    g0 = len(out)
    for off, ln, f in md_idx:
        out += E.frame(13, E.u64(off) + E.u64(ln) + E.pstr(f["name"].encode()) + pad)
    groups.append((13, g0, len(out) - g0))
    g0 = len(out)
    for off, ln, f in att_idx:
        out += E.frame(10, E.u64(off) + E.u64(ln) + E.u64(int(f["log_time"])) + E.u64(int(f["create_time"])) + E.u64(len(b_of(f["data"])))
                       + E.pstr(f["name"].encode()) + E.pstr(f["media_type"].encode()) + pad)
    groups.append((10, g0, len(out) - g0))
    g0 = len(out)
    for (st, en, coff, clen, offs, milen, usize) in chunk_idx:
        ob = b"".join(E.u16(c) + E.u64(o) for c, o in offs)
        out += E.frame(8, E.u64(st) + E.u64(en) + E.u64(coff) + E.u64(clen) + E.u32(len(ob)) + ob + E.u64(milen) + E.pstr(b"") + E.u64(usize) + E.u64(usize) + pad)
    groups.append((8, g0, len(out) - g0))
    has_summary = len(out) != summary_start
    so_start = 0
    if "sum" in feats:
        so_start = len(out)
        for op, gs, gl in groups:
            if gl:
                out += E.frame(14, bytes([op]) + E.u64(gs) + E.u64(gl) + pad)
    head = bytes([2]) + E.u64(20) + E.u64(summary_start if has_summary else 0) + E.u64(so_start)
    out += head + E.u32(E.crc32(bytes(out[summary_start:]) + head))
    out += E.MAGIC
    return bytes(out)


def pinned(v, data):
    return hashlib.sha256(data).hexdigest() == v["sha"] and len(data) == v["size"]


def norm_records(records):
    def norm_val(x):
        if isinstance(x, dict):
            return tuple(sorted((k, norm_val(val)) for k, val in x.items()))
        if isinstance(x, list):
            return tuple(norm_val(y) for y in x)
        return x
    return [(r["type"], tuple(sorted((k, norm_val(val)) for k, val in r["fields"]))) for r in records]


def indexed_expectation(v):
    res = {"schemas": [], "channels": [], "messages": [], "statistics": []}
    ks, kc = set(), set()
    for r in v["records"]:
        f = fields(r)
        if r["type"] == "Schema" and f["id"] not in ks:
            ks.add(f["id"]); res["schemas"].append(r)
        elif r["type"] == "Channel" and f["id"] not in kc:
            kc.add(f["id"]); res["channels"].append(r)
        elif r["type"] == "Message":
            res["messages"].append(r)
        elif r["type"] == "Statistics":
            res["statistics"].append(r)
    res["messages"].sort(key=lambda r: int(fields(r)["log_time"]))
    res["schemas"].sort(key=lambda r: int(fields(r)["id"]))
    res["channels"].sort(key=lambda r: int(fields(r)["id"]))
    return {k: norm_records(val) for k, val in res.items()}


def indexed_supported(v):
    f = set(v["features"])
    return any(r["type"] == "Message" for r in v["records"]) and {"ch", "chx", "rch", "rsh", "mx"} <= f


def writer_script(v):
    """the writer calls the Go tool makes for this vector (for the writer model)"""
    import gen_write as gw
    f = set(v["features"])
    o = {"crc": True, "chunked": "ch" in f, "chunksize": 0, "comp": "", "level": 0, "custom": False,
         "skipmi": "mx" not in f, "skipstats": "st" not in f, "skiprsh": "rsh" not in f, "skiprch": "rch" not in f, "skipai": "ax" not in f,
         "skipmdi": "mdx" not in f, "skipci": "chx" not in f, "skipso": "sum" not in f, "overridelib": True, "skipmagic": False}
    calls = []
    for r in v["records"]:
        fl = fields(r)
        t = r["type"]
        if t == "Header":
            calls.append(("H", fl["profile"].encode(), fl["library"].encode()))
        elif t == "Schema":
            calls.append(("S", int(fl["id"]), fl["name"].encode(), fl["encoding"].encode(), b_of(fl["data"])))
        elif t == "Channel":
            calls.append(("C", int(fl["id"]), int(fl["schema_id"]), fl["topic"].encode(), fl["message_encoding"].encode(),
                          [(k.encode(), val.encode()) for k, val in fl["metadata"].items()]))
        elif t == "Message":
            calls.append(("M", int(fl["channel_id"]), int(fl["sequence"]), int(fl["log_time"]), int(fl["publish_time"]), b_of(fl["data"])))
        elif t == "Attachment":
            d = b_of(fl["data"])
            calls.append(("A", int(fl["log_time"]), int(fl["create_time"]), fl["name"].encode(), fl["media_type"].encode(), len(d), 0, [d] if d else []))
        elif t == "Metadata":
            calls.append(("D", fl["name"].encode(), [(k.encode(), val.encode()) for k, val in fl["metadata"].items()]))
        elif t == "DataEnd":
            calls.append(("X",))
            break
    return o, calls
