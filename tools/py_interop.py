#!/usr/bin/env python3
"""py_interop.py - run the repository's Python MCAP package (python/mcap) on workloads for C16.
  py_interop.py read <dir>   : for every *.mcap in dir print one JSON line with what the Python readers return
  py_interop.py write <dir>  : for every *.json workload in dir write <name>.mcap with the Python Writer
Runs with /repo/python/mcap on sys.path (no third-party packages needed for uncompressed files)."""
import io
import json
import os
import sys

REPO = os.environ.get("VERIF_REPO", "/repo")
sys.path.insert(0, os.path.join(REPO, "python", "mcap"))

from mcap.reader import NonSeekingReader, SeekingReader  # noqa: E402
from mcap.writer import CompressionType, IndexType, Writer  # noqa: E402


def h(b):
    return bytes(b).hex()


def content(mk, ordered=False, reverse=False):
    out = {}
    hd = mk().get_header()
    out["header"] = [hd.profile, hd.library]
    msgs = []
    for schema, channel, message in mk().iter_messages(log_time_order=ordered, reverse=reverse):
        msgs.append({"schema": None if schema is None else [schema.id, schema.name, schema.encoding, h(schema.data)],
                     "channel": [channel.id, channel.schema_id, channel.topic, channel.message_encoding, sorted(channel.metadata.items())],
                     "message": [message.channel_id, message.sequence, message.log_time, message.publish_time, h(message.data)]})
    out["messages"] = msgs
    return out


def read_one(path):
    data = open(path, "rb").read()
    res = {"file": os.path.basename(path)}
    for name, mk in (("stream", lambda: NonSeekingReader(io.BytesIO(data), validate_crcs=True)),
                     ("seek", lambda: SeekingReader(io.BytesIO(data), validate_crcs=True))):
        r = {}
        try:
            r.update(content(mk))
            r["attachments"] = [[a.log_time, a.create_time, a.name, a.media_type, h(a.data)] for a in mk().iter_attachments()]
            r["metadata"] = [[m.name, sorted(m.metadata.items())] for m in mk().iter_metadata()]
            s = mk().get_summary()
            if s is not None and s.statistics is not None:
                st = s.statistics
                r["statistics"] = [st.message_count, st.schema_count, st.channel_count, st.attachment_count, st.metadata_count, st.chunk_count,
                                   st.message_start_time, st.message_end_time, sorted(st.channel_message_counts.items())]
            if name == "seek":
                r["log_order"] = content(mk, ordered=True)["messages"]
                r["rev_order"] = content(mk, ordered=True, reverse=True)["messages"]
        except Exception as e:  # noqa: BLE001
            r["error"] = "%s: %s" % (type(e).__name__, e)
        res[name] = r
    return res


def write_one(jpath):
    w = json.load(open(jpath))
    o = w["opts"]
    idx = IndexType.NONE
    for k, v in (("attachment", IndexType.ATTACHMENT), ("chunk", IndexType.CHUNK), ("message", IndexType.MESSAGE), ("metadata", IndexType.METADATA)):
        if o["index"].get(k):
            idx |= v
    buf = io.BytesIO()
    wr = Writer(buf, chunk_size=o["chunk_size"], compression=CompressionType.NONE, index_types=idx, repeat_channels=o["repeat_channels"],
                repeat_schemas=o["repeat_schemas"], use_chunking=o["use_chunking"], use_statistics=o["use_statistics"],
                use_summary_offsets=o["use_summary_offsets"], enable_crcs=o["enable_crcs"], enable_data_crcs=o["enable_data_crcs"])
    wr.start(profile=w["profile"], library=w["library"])
    for c in w["calls"]:
        k = c[0]
        if k == "S":
            sid = wr.register_schema(name=c[2], encoding=c[3], data=bytes.fromhex(c[4]))
            assert sid == c[1], "schema id %s != %s" % (sid, c[1])
        elif k == "C":
            cid = wr.register_channel(topic=c[3], message_encoding=c[4], schema_id=c[2], metadata=dict(c[5]))
            assert cid == c[1], "channel id %s != %s" % (cid, c[1])
        elif k == "M":
            wr.add_message(channel_id=c[1], log_time=c[3], data=bytes.fromhex(c[5]), publish_time=c[4], sequence=c[2])
        elif k == "A":
            wr.add_attachment(create_time=c[2], log_time=c[1], name=c[3], media_type=c[4], data=bytes.fromhex(c[5]))
        elif k == "D":
            wr.add_metadata(name=c[1], data=dict(c[2]))
    wr.finish()
    open(jpath[:-5] + ".mcap", "wb").write(buf.getvalue())


def main():
    mode, d = sys.argv[1], sys.argv[2]
    if mode == "read":
        for f in sorted(os.listdir(d)):
            if f.endswith(".mcap"):
                print(json.dumps(read_one(os.path.join(d, f))))
    elif mode == "write":
        for f in sorted(os.listdir(d)):
            if f.endswith(".json"):
                try:
                    write_one(os.path.join(d, f))
                    print(json.dumps({"file": f, "ok": True}))
                except Exception as e:  # noqa: BLE001
                    print(json.dumps({"file": f, "ok": False, "error": "%s: %s" % (type(e).__name__, e)}))


if __name__ == "__main__":
    main()
