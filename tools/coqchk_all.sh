#!/bin/sh
# coqchk_all.sh - re-check every compiled property module and everything it depends on with Coq's independent
# checker and print the axioms the whole development relies on. Takes 20-40 minutes; run after `make`.
set -e
cd "$(dirname "$0")/../coq"
mods=$(ls properties/*.vo | sed 's#properties/##; s#\.vo##; s#^#McapProps.#' | tr '\n' ' ')
echo "coqchk over: $mods"
timeout 14000 coqchk -silent -o -Q theories Mcap -Q properties McapProps $mods
