"""mcapenc.py - reference MCAP encoder written from the specification (independent of go/mcap).
It lays a file out from a declarative layout and computes every offset, length, size, time range
and CRC from the bytes it has produced.  Used to generate layouts the Go writer cannot produce:
arbitrary chunk partitions, overlapping chunk time ranges, unknown records, padded records,
permuted summary groups, optional sections."""
import struct
import zlib

MAGIC = b"\x89MCAP0\r\n"


def crc32(b):
    return zlib.crc32(b) & 0xFFFFFFFF


def u16(x): return struct.pack("<H", x)
def u32(x): return struct.pack("<I", x)
def u64(x): return struct.pack("<Q", x)
def pstr(s): return u32(len(s)) + s


def pmap(items):
    body = b"".join(pstr(k) + pstr(v) for k, v in sorted(items))
    return u32(len(body)) + body


def frame(op, body):
    return bytes([op]) + u64(len(body)) + body


def enc_schema(s, pad=b""): return u16(s["id"]) + pstr(s["name"]) + pstr(s["encoding"]) + pstr(s["data"]) + pad
def enc_channel(c, pad=b""): return u16(c["id"]) + u16(c["schema_id"]) + pstr(c["topic"]) + pstr(c["message_encoding"]) + pmap(c["metadata"]) + pad
def enc_message(m): return u16(m["channel_id"]) + u32(m["sequence"]) + u64(m["log_time"]) + u64(m["publish_time"]) + m["data"]


def build(L, compress=None):
    """L: {header:{profile,library}, items:[...], opts...}. Items:
       ("schema", s) ("channel", c) ("message", m) ("attachment", a) ("metadata", md) ("unknown", op, body)
       ("chunk", [inner items], {"compression": b"", ...})
     opts: crc (bool), message_index (bool), groups (ordered list of summary group names among
       schema, channel, statistics, chunk_index, attachment_index, metadata_index), summary_offsets (bool),
       pad (bytes appended to every extensible record), summary_unknown (list of (op, body) inserted in the summary),
       repeat_in_summary: which schemas/channels are repeated (default all seen)
    Returns (bytes, info) where info has the offsets of chunks etc."""
    pad = L.get("pad", b"")
    use_crc = L.get("crc", True)
    out = bytearray()
    out += MAGIC
    out += frame(1, pstr(L["header"]["profile"]) + pstr(L["header"]["library"]) + pad)
    schemas, channels = {}, {}
    chunk_indexes, att_indexes, md_indexes = [], [], []
    counts = {}
    times = []
    nmsg = 0

    def account_msg(m):
        nonlocal nmsg
        nmsg += 1
        counts[m["channel_id"]] = counts.get(m["channel_id"], 0) + 1
        times.append(m["log_time"])

    for it in L["items"]:
        k = it[0]
        if k == "schema":
            schemas.setdefault(it[1]["id"], it[1]); out += frame(3, enc_schema(it[1], pad))
        elif k == "channel":
            channels.setdefault(it[1]["id"], it[1]); out += frame(4, enc_channel(it[1], pad))
        elif k == "message":
            account_msg(it[1]); out += frame(5, enc_message(it[1]))
        elif k == "unknown":
            out += frame(it[1], it[2])
        elif k == "attachment":
            a = it[1]
            off = len(out)
            body = u64(a["log_time"]) + u64(a["create_time"]) + pstr(a["name"]) + pstr(a["media_type"]) + u64(len(a["data"])) + a["data"]
            body += u32(crc32(body) if a.get("crc", True) else 0)
            out += frame(9, body)
            att_indexes.append({"offset": off, "length": 9 + len(body), "log_time": a["log_time"], "create_time": a["create_time"],
                                "data_size": len(a["data"]), "name": a["name"], "media_type": a["media_type"]})
        elif k == "metadata":
            md = it[1]
            off = len(out)
            body = pstr(md["name"]) + pmap(md["metadata"]) + pad
            out += frame(12, body)
            md_indexes.append({"offset": off, "length": 9 + len(body), "name": md["name"]})
        elif k == "chunk":
            inner, copts = it[1], (it[2] if len(it) > 2 else {})
            plain = bytearray()
            mi = {}
            ctimes = []
            for jt in inner:
                if jt[0] == "schema":
                    schemas.setdefault(jt[1]["id"], jt[1]); plain += frame(3, enc_schema(jt[1], pad))
                elif jt[0] == "channel":
                    channels.setdefault(jt[1]["id"], jt[1]); plain += frame(4, enc_channel(jt[1], pad))
                elif jt[0] == "message":
                    m = jt[1]
                    account_msg(m); ctimes.append(m["log_time"])
                    mi.setdefault(m["channel_id"], []).append((m["log_time"], len(plain)))
                    plain += frame(5, enc_message(m))
                elif jt[0] == "unknown":
                    plain += frame(jt[1], jt[2])
            plain = bytes(plain)
            comp = copts.get("compression", b"")
            payload = plain if comp == b"" else compress(comp, plain)
            st, en = copts.get("range", (min(ctimes), max(ctimes)) if ctimes else (0, 0))
            coff = len(out)
            body = u64(st) + u64(en) + u64(len(plain)) + u32(crc32(plain) if use_crc else 0) + pstr(comp) + u64(len(payload)) + payload
            out += frame(6, body)
            cend = len(out)
            offs = []
            if L.get("message_index", True):
                for ch in sorted(mi):
                    offs.append((ch, len(out)))
                    ebody = b"".join(u64(t) + u64(o) for t, o in mi[ch])
                    out += frame(7, u16(ch) + u32(len(ebody)) + ebody)
            chunk_indexes.append({"start": st, "end": en, "offset": coff, "length": cend - coff, "mi_offsets": offs,
                                  "mi_length": len(out) - cend, "compression": comp, "csize": len(payload), "usize": len(plain)})
    de_off = len(out)
    out += frame(15, u32(crc32(bytes(out)) if use_crc else 0))
    # ---- summary ----
    summary_start = len(out)
    groups = L.get("groups", ["schema", "channel", "statistics", "chunk_index", "attachment_index", "metadata_index"])
    offsets = []
    sunk = list(L.get("summary_unknown", []))
    for gname in groups:
        gstart = len(out)
        if gname == "schema":
            for sid in schemas:
                out += frame(3, enc_schema(schemas[sid], pad))
            op = 3
        elif gname == "channel":
            for cid in channels:
                out += frame(4, enc_channel(channels[cid], pad))
            op = 4
        elif gname == "statistics":
            cbody = b"".join(u16(c) + u64(n) for c, n in sorted(counts.items()))
            body = (u64(nmsg) + u16(len(schemas)) + u32(len(channels)) + u32(len(att_indexes)) + u32(len(md_indexes)) + u32(len(chunk_indexes))
                    + u64(min(times) if times else 0) + u64(max(times) if times else 0) + u32(len(cbody)) + cbody + pad)
            out += frame(11, body)
            op = 11
        elif gname == "chunk_index":
            for ci in chunk_indexes:
                ob = b"".join(u16(c) + u64(o) for c, o in ci["mi_offsets"])
                out += frame(8, u64(ci["start"]) + u64(ci["end"]) + u64(ci["offset"]) + u64(ci["length"]) + u32(len(ob)) + ob
                             + u64(ci["mi_length"]) + pstr(ci["compression"]) + u64(ci["csize"]) + u64(ci["usize"]) + pad)
            op = 8
        elif gname == "attachment_index":
            for ai in att_indexes:
                out += frame(10, u64(ai["offset"]) + u64(ai["length"]) + u64(ai["log_time"]) + u64(ai["create_time"]) + u64(ai["data_size"])
                             + pstr(ai["name"]) + pstr(ai["media_type"]) + pad)
            op = 10
        elif gname == "metadata_index":
            for mx in md_indexes:
                out += frame(13, u64(mx["offset"]) + u64(mx["length"]) + pstr(mx["name"]) + pad)
            op = 13
        else:
            continue
        if len(out) > gstart:
            offsets.append((op, gstart, len(out) - gstart))
        if sunk:
            uop, ubody = sunk.pop(0)
            out += frame(uop, ubody)
    has_summary = len(out) > summary_start
    so_start = 0
    if L.get("summary_offsets", True) and offsets:
        so_start = len(out)
        for op, gs, gl in offsets:
            out += frame(14, bytes([op]) + u64(gs) + u64(gl) + pad)
    foot_head = bytes([2]) + u64(20) + u64(summary_start if has_summary else 0) + u64(so_start)
    crc_from = summary_start
    scrc = crc32(bytes(out[crc_from:]) + foot_head) if use_crc else 0
    out += foot_head + u32(scrc)
    out += MAGIC
    return bytes(out), {"chunk_indexes": chunk_indexes, "att_indexes": att_indexes, "md_indexes": md_indexes,
                        "schemas": schemas, "channels": channels, "dataend": de_off}
