"""chk_read.py - running Reader operations (Info, Messages, random access) on implementation and model."""
import os

import common as cm


def read_lines(c, dec=None, dall=None):
    src = {"fail": -1}
    src.update(c.get("src", {}))
    lines = ["ropts " + " ".join(c.get("ropts", [])) if c.get("ropts") else "ropts none",
             "src " + " ".join("%s=%s" % kv for kv in sorted(src.items())),
             "file " + cm.hx(c["file"])]
    for key, val in (dec or {}).items():
        lines.append("dec %s %s %s %s %s" % (key[0], key[1], key[2], val[0], val[1]))
    for key, val in (dall or {}).items():
        lines.append("dall %s %s %s %s %s" % (key[0], key[1], key[2], val[0], val[1]))
    for op in c.get("ops", [["messages"]]):
        lines.append("op " + " ".join(op))
    return lines


def parse_read_obs(lines):
    """Split into per-op blocks (each starts at a 'newreader' line)."""
    ops = []
    cur = None
    needs = []
    panic = None
    allocated = None
    for l in lines:
        if l.startswith("allocated "):
            allocated = int(l.split(" ")[1])
            continue
        if l.startswith("newreader"):
            cur = {"newreader": l, "head": None, "msgs": [], "mds": [], "end": None, "info": [], "other": [], "slots": None, "alias": None, "panic": None}
            ops.append(cur)
            continue
        if l.startswith("need ") or l.startswith("needall "):
            needs.append(tuple(l.split(" ")))
            continue
        if cur is None:
            if l.startswith("panic") or l.startswith("exit") or l.startswith("outoffuel"):
                panic = l
            continue
        f = l.split(" ", 1)
        k = f[0]
        if k == "msg":
            cur["msgs"].append(l)
        elif k == "md":
            cur["mds"].append(l)
        elif k == "endmsg":
            cur["end"] = f[1]
        elif k in ("messages", "info", "getatt", "getmd"):
            cur["head"] = l
        elif k in ("footer", "nofooter", "stats", "nostats", "ischema", "ichannel", "ci", "ai", "mx", "channelcounts"):
            cur["info"].append(l)
        elif k == "slots":
            cur["slots"] = f[1]
        elif k == "aliaschanged":
            cur["alias"] = f[1]
        elif k in ("panic", "exit", "outoffuel"):
            cur["panic"] = l
        else:
            cur["other"].append(l)
    return {"ops": ops, "needs": needs, "panic": panic, "allocated": allocated}


def run_read(cases, wd, tag="read", timeout=900, isolated=False, go_env=None):
    import chk_lex
    impl = os.path.join(cm.BUILD, "impl")
    model_exe = os.path.join(cm.BUILD, "model")
    for c in cases:
        if "base" in c and "g" in c["base"] and "_dec" not in c:
            chk_lex.seed_tables(c, c["base"])
    if isolated:
        go_raw, culprits = cm.run_isolated(impl, "read", [(c["id"], read_lines(c)) for c in cases], wd, tag + "go", timeout=60,
                                           env=go_env, mem_bytes=16 << 30)
        crashed = []
    else:
        go_raw, crashed = cm.run_sharded(impl, "read", [(c["id"], read_lines(c)) for c in cases], wd, tag + "go", timeout=timeout, extra_env=go_env)
        culprits = {}
    go = {k: parse_read_obs(v) for k, v in go_raw.items()}
    for k, why in culprits.items():
        go[k] = {"ops": [], "needs": [], "panic": "process-death: " + why}
    dec_table, dall_table = {}, {}
    pending = list(cases)
    model = {}
    mcrashed = []
    for rnd in range(12):
        if not pending:
            break
        raw, mc = cm.run_sharded(model_exe, "read", [(c["id"], read_lines(c, c.get("_dec"), c.get("_dall"))) for c in pending], wd,
                                 "%smodel%d" % (tag, rnd), timeout=timeout)
        mcrashed += mc
        again = []
        allneeds = set()
        for c in pending:
            m = parse_read_obs(raw.get(c["id"], []))
            if m["needs"] and rnd < 11:
                allneeds.update(m["needs"])
                again.append((c, m["needs"]))
            else:
                model[c["id"]] = m
        if not again:
            break
        q = []
        for nd in allneeds:
            if nd[0] == "need" and nd[1:] not in dec_table:
                q.append("dec %s %s %s" % nd[1:])
            elif nd[0] == "needall" and nd[1:] not in dall_table:
                q.append("dall %s %s %s" % nd[1:])
        if q:
            draw, dc = cm.run_sharded(impl, "decomp", [("q%d" % i, [x]) for i, x in enumerate(q)], wd, "%sdec%d" % (tag, rnd), timeout=timeout)
            crashed += dc
            for lines in draw.values():
                for l in lines:
                    f = l.split(" ")
                    if f[0] == "dec":
                        dec_table[(f[1], f[2], f[3])] = (f[4], f[5])
                    elif f[0] == "dall":
                        dall_table[(f[1], f[2], f[3])] = (f[4], f[5])
        pending = []
        for c, nds in again:
            dec = dict(c.get("_dec") or {})
            dall = dict(c.get("_dall") or {})
            for nd in nds:
                if nd[0] == "need" and nd[1:] in dec_table:
                    dec[nd[1:]] = dec_table[nd[1:]]
                if nd[0] == "needall" and nd[1:] in dall_table:
                    dall[nd[1:]] = dall_table[nd[1:]]
            c["_dec"], c["_dall"] = dec, dall
            pending.append(c)
    return go, model, crashed + mcrashed


FUEL_ARTEFACTS = []


def diff_read(g, m, compare_slots=True):
    if g is None or m is None:
        return "missing output (impl %s, model %s)" % (g is not None, m is not None)
    if len(g["ops"]) != len(m["ops"]):
        return "number of operations: impl %d model %d (impl panic %s, model panic %s)" % (len(g["ops"]), len(m["ops"]), g["panic"], m["panic"])
    for i, (a, b) in enumerate(zip(g["ops"], m["ops"])):
        if (b["panic"] or "").startswith("outoffuel") and not a["panic"]:
            # the model's fuel (file size + 1 steps) ran out although the implementation finished: a limit of the model
            # (ReaderTotal.v characterises it exactly: expanding decoders, many chunk indexes on one chunk), never a finding
            FUEL_ARTEFACTS.append(i)
            continue
        if a["panic"] or b["panic"]:
            if bool(a["panic"]) != bool(b["panic"]):
                return "op %d: impl crash %s, model crash %s" % (i, a["panic"], b["panic"])
            continue
        for k in ("newreader", "head", "mds", "msgs", "end", "info", "other", "alias") + (("slots",) if compare_slots and a["end"] == "err:eof" else ()):
            if a[k] != b[k]:
                if isinstance(a[k], list):
                    n = next((j for j in range(min(len(a[k]), len(b[k]))) if a[k][j] != b[k][j]), min(len(a[k]), len(b[k])))
                    x = a[k][n][:160] if n < len(a[k]) else "<none>"
                    y = b[k][n][:160] if n < len(b[k]) else "<none>"
                    return "op %d %s[%d] (impl %d, model %d): impl %s | model %s" % (i, k, n, len(a[k]), len(b[k]), x, y)
                return "op %d %s: impl %r model %r" % (i, k, a[k], b[k])
    return None


def read_replay(c):
    return ["case %s" % c["id"]] + read_lines(c, c.get("_dec"), c.get("_dall")) + ["end"]
