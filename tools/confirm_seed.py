#!/usr/bin/env python3
"""confirm_seed.py <id> <outdir> <property> [--pkg go/mcap] [--run REGEX]
Confirm a seeded change produced by an independent agent: in a fresh scratch worktree of /repo the
demonstration must pass without the change and fail with it, the change must build and must not alter the
result of the existing tests. On success the change is stored under /verif/seeded/<id>/."""
import argparse
import json
import os
import re
import shutil
import subprocess
import sys

VERIF = os.path.dirname(os.path.dirname(os.path.abspath(__file__)))
ENV = dict(os.environ, GOPROXY="off", GOSUMDB="off", GOTOOLCHAIN="local")
ENV.pop("GOFLAGS", None)


def sh(cmd, cwd=None):
    p = subprocess.run(cmd, shell=True, cwd=cwd, env=ENV, stdout=subprocess.PIPE, stderr=subprocess.STDOUT, text=True)
    return p.returncode, p.stdout


def failing_tests(pkgdir):
    rc, out = sh("go test -count=1 ./... 2>&1", cwd=pkgdir)
    return sorted(set(re.findall(r"^--- FAIL: (\S+)", out, re.M))), rc, out


def main():
    ap = argparse.ArgumentParser()
    ap.add_argument("id"); ap.add_argument("outdir"); ap.add_argument("property")
    ap.add_argument("--pkg", default="go/mcap")
    ap.add_argument("--run", default=None)
    ap.add_argument("--tags", default="")
    ap.add_argument("--extra", default="", help="comma separated extra demo files to copy next to the demo test")
    a = ap.parse_args()
    wt = "/tmp/wtc/%s" % a.id
    sh("git -C /repo worktree remove --force %s" % wt)
    shutil.rmtree(wt, ignore_errors=True)
    os.makedirs("/tmp/wtc", exist_ok=True)
    rc, out = sh("git -C /repo worktree add -q --detach %s HEAD" % wt)
    assert rc == 0, out
    res = {"property": a.property, "id": a.id}
    try:
        pkg = os.path.join(wt, a.pkg)
        demo = os.path.join(a.outdir, "demo_test.go")
        src = open(demo).read()
        runre = a.run or "|".join(re.findall(r"^func (Test\w+)\(", src, re.M))
        shutil.copy(demo, os.path.join(pkg, "zz_seed_demo_test.go"))
        extras = [x for x in a.extra.split(",") if x]
        for x in extras:
            shutil.copy(os.path.join(a.outdir, x), os.path.join(pkg, x))
        base_fail, _, _ = failing_tests(pkg)
        base_fail = [t for t in base_fail if not re.match(runre + "$", t.split("/")[0])]
        tags = ("-tags %s " % a.tags) if a.tags else ""
        rc0, out0 = sh("go test %s-count=1 -run '%s' . 2>&1 | tail -15" % (tags, runre), cwd=pkg)
        ok_before = "FAIL" not in out0 and re.search(r"^ok\s", out0, re.M) is not None
        rc, out = sh("git apply %s" % os.path.join(a.outdir, "patch.diff"), cwd=wt)
        assert rc == 0, "patch does not apply: " + out
        rcb, outb = sh("go build ./... && go vet . 2>&1 | tail -3", cwd=pkg)
        rc1, out1 = sh("go test %s-count=1 -run '%s' . 2>&1 | tail -25" % (tags, runre), cwd=pkg)
        fails_after = "FAIL" in out1
        os.remove(os.path.join(pkg, "zz_seed_demo_test.go"))
        for x in extras:
            os.remove(os.path.join(pkg, x))
        after_fail, _, _ = failing_tests(pkg)
        res.update({"demo_passes_on_unchanged_tree": ok_before, "builds_with_change": rcb == 0, "demo_fails_with_change": fails_after,
                    "existing_tests_failing_before": base_fail, "existing_tests_failing_after": after_fail,
                    "existing_suite_unaffected": base_fail == after_fail,
                    "ran": ["git worktree add %s" % wt, "go test -run '%s' (unchanged: pass=%s)" % (runre, ok_before), "git apply patch.diff", "go build ./... ; go vet .",
                            "go test -run '%s' (changed: fails=%s)" % (runre, fails_after), "go test ./... (failing set unchanged=%s)" % (base_fail == after_fail)],
                    "demo_output_with_change": out1[-1200:]})
        confirmed = ok_before and rcb == 0 and fails_after and base_fail == after_fail
        res["confirmed"] = confirmed
        print(json.dumps({k: v for k, v in res.items() if k != "demo_output_with_change"}, indent=1))
        if confirmed:
            d = os.path.join(VERIF, "seeded", a.id)
            os.makedirs(d, exist_ok=True)
            for f in ["patch.diff", "demo_test.go", "DESCRIPTION.md", "RUN.txt"] + extras:
                if os.path.exists(os.path.join(a.outdir, f)):
                    shutil.copy(os.path.join(a.outdir, f), d)
            desc = open(os.path.join(a.outdir, "DESCRIPTION.md")).read() if os.path.exists(os.path.join(a.outdir, "DESCRIPTION.md")) else ""
            meta = {"property": a.property, "checks": [a.property], "kind": "seeded by an independent agent (given only the property text and a scratch worktree)",
                    "needs": desc[:1500], "confirmed": res}
            json.dump(meta, open(os.path.join(d, "meta.json"), "w"), indent=1)
        else:
            print(out0[-800:]); print(out1[-800:]); print(outb[-500:])
    finally:
        sh("git -C /repo worktree remove --force %s" % wt)
        shutil.rmtree(wt, ignore_errors=True)
    sys.exit(0 if res.get("confirmed") else 1)


if __name__ == "__main__":
    main()
