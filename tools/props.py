"""props.py - per-property check functions and the common run_check wrapper."""
import os
import re
import shutil
import sys

import common as cm

REGISTRY = {}


def prop(name):
    def deco(f):
        REGISTRY[name] = f
        return f
    return deco


def proof_block(rep, prop_id, coq_ok, coq_out):
    """Establish which theorems of properties/<prop>.v are discharged on this run."""
    theorems, built = cm.proof_status(prop_id, coq_ok, coq_out)
    res, out = (None, "")
    closed = 0
    axioms = []
    if built:
        res, out = cm.check_assumptions(prop_id)
        if res:
            ok, closed, axioms = res
            built = built and ok
    forb = cm.scan_forbidden()
    info = {
        "obligations": len(theorems),
        "discharged": len(theorems) if built and not forb and not axioms and closed >= len(theorems) else 0,
        "theorems": theorems,
        "checker_cmd": "make -C coq (coqc 8.16.1, full .vo build) && coqc %s (Print Assumptions under every theorem)"
                       % " ".join("properties/" + os.path.basename(f) for f in cm.prop_files(prop_id)),
        "closed_under_global_context": closed,
        "axioms_reported": axioms,
        "trusted_base": cm.TRUSTED_BASE,
    }
    broken = None
    if not theorems:
        broken = "properties/%s.v has no theorems" % prop_id
    elif not built:
        mine = cm.coq_failed_for(prop_id, coq_out) if not coq_ok else None
        text = coq_out + out
        m = None
        for f in mine or []:
            m = m or re.search(r'File "\./%s", line (\d+)[^\n]*\n((?:.*\n){0,6})' % re.escape(f), text)
        m = m or re.search(r'File "([^"]+)", line (\d+)[^\n]*\n((?:.*\n){0,6})', text)
        broken = "proof obligation no longer checks%s: %s" % (" (%s)" % ", ".join(mine) if mine else "", m.group(0).strip() if m else "coq build failed")
    elif forb:
        broken = "forbidden declarations present: %s" % forb[:5]
    elif axioms or closed < len(theorems):
        broken = "Print Assumptions is not 'Closed under the global context' for every theorem: %s" % axioms
    return info, broken


def run_check(prop_id, tier, seed, replay=None):
    if prop_id not in REGISTRY:
        print("unknown property", prop_id)
        return 2
    if replay:
        return replay_file(replay)
    rep = cm.Report(prop_id, tier, seed)
    os.makedirs(cm.WORK, exist_ok=True)
    coq_ok, coq_out = cm.build_coq()
    try:
        cm.build_model()
    except RuntimeError as e:
        # the executable model itself does not build: nothing can be attributed to single files
        coq_ok, coq_out = False, "model build failed: %s" % str(e)[-400:]
    ok, msg = cm.build_harness()
    if not ok:
        # the harness does not build against the current tree: nothing can be shown
        rep.add_violation("harness-build", msg[-2000:], [], failing_input=False)
        return rep.finish("proof", {"explanation": "harness build failed", "evaluations": 1, "distinct_nontrivial": 2}, [])
    pinfo, broken = proof_block(rep, prop_id, coq_ok, coq_out)
    wd = cm.workdir(prop_id)
    try:
        cov, assumptions = REGISTRY[prop_id](rep, tier, seed, wd, replay)
    except Exception:  # noqa: BLE001
        # the machinery itself failed on what the tree produced: the property is not shown to hold on this run
        import traceback
        tb = traceback.format_exc()
        rep.add_violation("check-error", "the check could not evaluate the output of this tree: " + tb[-1500:], ["# " + l for l in tb.splitlines()[-12:]], failing_input=False)
        cov, assumptions = {"explanation": "check aborted by an internal error", "evaluations": 1, "distinct_nontrivial": 2}, []
    finally:
        shutil.rmtree(wd, ignore_errors=True)
    if tier == "thorough" and not broken:
        # independent re-check of the compiled proofs and their whole dependency closure
        mods = ["McapProps.%s" % os.path.basename(f)[:-2] for f in cm.prop_files(prop_id)] or ["McapProps.%s" % prop_id]
        p = cm.run(["timeout", "6000", "coqchk", "-silent", "-o", "-Q", "theories", "Mcap", "-Q", "properties", "McapProps"] + mods,
                   cwd=cm.COQ, check=False)
        out = p.stdout.decode(errors="replace")
        m = re.search(r"\* Axioms:(.*?)\n\s*\n", out, re.S)
        pinfo["coqchk"] = {"exit": p.returncode, "axioms": (m.group(1).strip() if m else "?")}
        if p.returncode != 0 or not m or m.group(1).strip() != "<none>":
            broken = "coqchk does not accept %s without axioms: %s" % (" ".join(mods), out[-600:])
    if broken:
        concrete = any(v["failing_input"] for v in rep.violations)
        rep.add_violation("proof", broken, ["# theorem/correspondence that no longer checks:", "# " + broken.replace("\n", "\n# ")],
                          failing_input=False)
    cov.update(pinfo)
    return rep.finish("proof", cov, assumptions)


def summarize(rep, cases_run, distinct, rule, samples, extra=None):
    def clip(x):
        if isinstance(x, list):
            return [clip(y) for y in x[:12]]
        if isinstance(x, str) and len(x) > 600:
            return x[:600] + "...(%d chars)" % len(x)
        return x
    cov = {"evaluations": cases_run, "distinct_nontrivial": distinct, "rule": rule, "samples": [clip(x) for x in samples[:3]]}
    if extra:
        cov.update(extra)
    return cov


# ------------------------------------------------------------------ writer family
import chk_writer as cw  # noqa: E402
import gen_write as gw  # noqa: E402


def writer_corr(rep, cases, wd, keys, oracle_props, tag="w", extra=None):
    """Correspondence impl vs model on `cases` + property oracle on the implementation's output."""
    go, model, crashed = cw.run_go_and_model(cases, wd, tag, extra=extra)
    for cmd, rc, err in crashed:
        rep.add_violation("executor-crash", "%s exited %s: %s" % (cmd, rc, err), [], failing_input=False)
    distinct = set()
    n_disagree = 0
    hist = {"chunked": 0, "compressed": 0, "crc": 0, "with_error_calls": 0, "chunks": 0, "calls": 0}
    for c in cases:
        g, m = go.get(c["id"]), model.get(c["id"])
        if g is None or m is None:
            rep.add_violation("missing-output", "no output for case %s (impl %s, model %s)" % (c["id"], g is not None, m is not None),
                              cw.case_replay(c), failing_input=False)
            continue
        distinct.add(cw.nontrivial_key(c, g))
        hist["chunked"] += c["o"]["chunked"]; hist["compressed"] += bool(c["o"]["comp"]); hist["crc"] += c["o"]["crc"]
        hist["with_error_calls"] += any(r != "ok" for r in g["calls"]); hist["chunks"] += len(g["chunks"]); hist["calls"] += len(c["calls"])
        probs = [p for p in cw.oracle_file(c, g) if p[0] in oracle_props]
        for p, msg in probs:
            rep.add_violation("oracle", "case %s: %s" % (c["id"], msg), cw.case_replay(c))
        d = cw.diff_obs(g, m, keys)
        if d:
            n_disagree += 1
            # correspondence broken: a concrete property failure was searched by the oracle above
            rep.add_violation("correspondence", "case %s: impl and model disagree: %s" % (c["id"], d), cw.case_replay(c),
                              failing_input=bool(probs))
    return go, model, distinct, hist, n_disagree


def incoq_writer_sample(rep, cases, go, wd, k=30):
    """Thorough tier: re-evaluate a sample of writer cases INSIDE Coq (vm_compute on the same Gallina
    definitions the theorems are about) and compare with the bytes the real writer produced; this takes
    extraction and the OCaml driver out of the trusted base for the sample."""
    import gen_c17
    sample = []
    for c in cases:
        g = go.get(c["id"])
        if g and g["new"] == "ok" and all(x == "ok" for x in g["calls"]) and (not c["o"]["comp"] or not c["o"]["chunked"]) and len(b"".join(g["writes"])) < 3000:
            sample.append((c, b"".join(g["writes"])))
        if len(sample) >= k:
            break
    if not sample:
        return 0
    B = lambda x: "true" if x else "false"
    lines = ["From Coq Require Import List NArith ZArith Bool String.", "From Coq.Strings Require Import Byte.",
             "From Mcap Require Import Bytes GoSem Records Writer Lexer C17Support.", "Import ListNotations.", "Open Scope N_scope.", "Open Scope string_scope.",
             "Definition weq (o : wopts) (lib : bytes) (cs : list wcall) (e : bytes) : bool := bytes_eqb (file_of (W o lib (fun _ x => x) None cs)) e."]
    names = []
    for i, (c, data) in enumerate(sample):
        o = c["o"]
        ot = ("{| o_crc := %s; o_chunked := %s; o_chunksize := (%d)%%Z; o_comp := %s; o_custom := %s; o_skip_mi := %s; o_skip_stats := %s; o_skip_rsh := %s; o_skip_rch := %s; "
              "o_skip_ai := %s; o_skip_mdi := %s; o_skip_ci := %s; o_skip_so := %s; o_override_lib := %s; o_skip_magic := %s |}") % (
            B(o["crc"]), B(o["chunked"]), o["chunksize"], gen_c17.H(o["comp"].encode()), B(o["custom"]), B(o["skipmi"]), B(o["skipstats"]), B(o["skiprsh"]), B(o["skiprch"]),
            B(o["skipai"]), B(o["skipmdi"]), B(o["skipci"]), B(o["skipso"]), B(o["overridelib"]), B(o["skipmagic"]))
        lines.append("Definition c%d := weq %s %s [%s] %s." % (i, ot, gen_c17.H(cm.lib_id()), "; ".join(gen_c17.call_term(x) for x in c["calls"]), gen_c17.H(data)))
        names.append("c%d" % i)
    lines.append("Definition M := Eval vm_compute in [%s]." % "; ".join(names))
    lines.append("Print M.")
    d = os.path.join(wd, "incoq")
    os.makedirs(d, exist_ok=True)
    open(os.path.join(d, "cases.v"), "w").write("\n".join(lines) + "\n")
    p = cm.run(["timeout", "1200", "coqc", "-Q", os.path.join(cm.COQ, "theories"), "Mcap", "cases.v"], cwd=d, check=False)
    out = p.stdout.decode(errors="replace")
    nt = out.count("true")
    if p.returncode != 0 or "false" in out or nt != len(sample):
        rep.add_violation("correspondence", "in-Coq evaluation of %d sampled writer cases disagrees with the implementation's bytes (coqc rc=%s): %s" % (len(sample), p.returncode, out[-400:]),
                          [l for c, _ in sample[:3] for l in cw.case_replay(c)], failing_input=False)
    return len(sample)


@prop("C05")
def check_c05(rep, tier, seed, wd, replay):
    n = 500 if tier == "quick" else 6000
    cases = cw.gen_cases(seed * 1000 + 5, n, "c05_", legal_p=0.95)
    go, model, distinct, hist, nd = writer_corr(rep, cases, wd, ["new", "calls", "writes", "indexes"], {"C05"})
    if tier == "thorough":
        hist["in_coq_sample"] = incoq_writer_sample(rep, cases, go, wd)
    cov = summarize(rep, len(cases), len(distinct),
                    "random writer workloads (options x call sequences, boundary-biased); distinct = distinct (chunked, compression, crc, #chunks<=3, call kinds, flag vector); compared: NewWriter/call results, every destination Write (bytes and segmentation), index list lengths; oracle: independent spec decoder accepts the file, all pointers exact, content equals calls",
                    [cw.case_replay(c) for c in (cases[:1] + cases[-2:])], {"input_distribution": hist, "disagreements": nd})
    return cov, ["codec round-trip checked per chunk by calling the codec library directly"]


@prop("C06")
def check_c06(rep, tier, seed, wd, replay):
    n = 500 if tier == "quick" else 6000
    cases = cw.gen_cases(seed * 1000 + 6, n, "c06_", legal_p=1.0, force={})
    # bias: CRCs on for most, attachments frequent
    go, model, distinct, hist, nd = writer_corr(rep, cases, wd, ["new", "calls", "writes"], {"C06", "C05"})
    ncrc = 0
    for c in cases:
        g = go.get(c["id"])
        if g and g["new"] == "ok":
            ncrc += 2 + len(g["chunks"]) + sum(1 for x in c["calls"] if x[0] == "A")
    cov = summarize(rep, len(cases), len(distinct),
                    "random writer workloads; every CRC field of every produced file (data end, summary, each chunk, each attachment) recomputed from the file bytes by the independent spec decoder (zlib.crc32) and compared; with CRCs off the data/summary/chunk fields must be 0; bytes also compared with the model (whose crc32 is proved equal to the bitwise CRC-32/IEEE definition); distinct as in C05",
                    [cw.case_replay(c) for c in cases[:2]], {"input_distribution": hist, "crc_fields_checked": ncrc, "disagreements": nd})
    return cov, ["zlib.crc32 as independent CRC implementation in the oracle"]


@prop("C08")
def check_c08(rep, tier, seed, wd, replay):
    n = 450 if tier == "quick" else 6000
    g0 = gw.Gen(seed * 1000 + 8)
    cases = cw.corner_cases("c08_")
    for i in range(n):
        o = g0.wopts(skipstats=(g0.r.random() < 0.1))
        if g0.r.random() < 0.5:
            o["chunksize"] = g0.r.choice([1, 1, 7, 64])       # many flushes, out-of-order across chunks
        cases.append({"id": "c08_%d" % i, "o": o, "calls": g0.calls(0, 40, legal=True), "legal": True})
    go, model, distinct, hist, nd = writer_corr(rep, cases, wd, ["new", "calls", "stats", "indexes", "writes"], {"C08"})
    # ---- Info on every produced file
    icases = []
    for c in cases:
        g = go.get(c["id"])
        if g and g["new"] == "ok" and all(x == "ok" for x in g["calls"]) and not c["o"]["skipmagic"]:
            f = {"id": c["id"], "o": c["o"], "calls": c["calls"], "g": g, "file": b"".join(g["writes"])}
            icases.append({"id": c["id"] + "_info", "file": f["file"], "ropts": [], "ops": [["info"]], "base": f})
    go_i, model_i, nd2 = read_corr(rep, icases, wd, "c08i")
    ninfo = 0
    for c in icases:
        gi = go_i.get(c["id"])
        probs = []
        d = decode_written(c["base"])
        if gi and gi["ops"] and d:
            o = gi["ops"][0]
            if o["panic"]:
                probs.append("Info crashed: %s" % o["panic"])
            elif o["head"] == "info ok":
                ninfo += 1
                S = d["summary"]
                lines = o["info"]
                got = {k: [l for l in lines if l.split(" ")[0] == k] for k in ("ischema", "ichannel", "ci", "ai", "mx", "stats")}
                if sorted(int(l.split(" ")[1]) for l in got["ischema"]) != sorted(x["id"] for x in S["schemas"]):
                    probs.append("Info.Schemas does not list every schema of the summary")
                if sorted(int(l.split(" ")[1]) for l in got["ichannel"]) != sorted(x["id"] for x in S["channels"]):
                    probs.append("Info.Channels does not list every channel of the summary")
                if sorted(int(l.split(" ")[3]) for l in got["ci"]) != sorted(x["offset"] for x in S["chunk_indexes"]):
                    probs.append("Info.ChunkIndexes lists %d chunks, the summary has %d chunk index records" % (len(got["ci"]), len(S["chunk_indexes"])))
                if [int(l.split(" ")[1]) for l in got["ai"]] != [x["offset"] for x in S["attachment_indexes"]]:
                    probs.append("Info.AttachmentIndexes does not list every attachment index")
                if [int(l.split(" ")[1]) for l in got["mx"]] != [x["offset"] for x in S["metadata_indexes"]]:
                    probs.append("Info.MetadataIndexes does not list every metadata index")
                if S["statistics"] is not None:
                    true = mcapspec.true_statistics(d)
                    if not got["stats"] or cw.stats_of_line(got["stats"][0][6:]) != true:
                        probs.append("Info.Statistics %s differs from the true aggregates %s" % (got["stats"][:1], true))
        report_case(rep, c, probs[:3], cr.read_replay)
    cov = summarize(rep, len(cases) + len(icases), len(distinct),
                    "writer workloads biased to log time 0, descending/repeated times across chunk flushes, message-less chunks and channels; compared with the model: Writer.Statistics after Close, index list lengths, file bytes (hence the statistics record), and Reader.Info of every produced file; oracle: aggregates recomputed from the decoded file (independent decoder) vs Writer.Statistics, vs the statistics record, vs Info.Statistics; Info lists every schema/channel/chunk index/attachment index/metadata index the summary holds",
                    [cw.case_replay(c) for c in cases[:2]], {"input_distribution": hist, "info_reads": ninfo, "disagreements": nd + nd2})
    return cov, []


def permute_maps(calls, rnd):
    res = []
    for c in calls:
        if c[0] == "C":
            kv = list(c[5]); rnd.shuffle(kv); res.append(c[:5] + (kv,))
        elif c[0] == "D":
            kv = list(c[2]); rnd.shuffle(kv); res.append(c[:2] + (kv,))
        else:
            res.append(c)
    return res


@prop("C13")
def check_c13(rep, tier, seed, wd, replay):
    import hashlib
    import random
    import time
    stage = {}
    t0 = time.time()
    n = 120 if tier == "quick" else 2000
    g0 = gw.Gen(seed * 1000 + 13)
    rnd = random.Random(seed)
    base = []
    for i in range(n):
        o = g0.wopts()
        calls = g0.calls(5, 40, legal=True)
        base.append((o, calls))
    cases = []
    for i, (o, calls) in enumerate(base):
        cases.append({"id": "c13_%d_a" % i, "o": o, "calls": calls})
        cases.append({"id": "c13_%d_b" % i, "o": o, "calls": permute_maps(calls, rnd), "table_from": "c13_%d_a" % i})
        cases.append({"id": "c13_%d_c" % i, "o": o, "calls": permute_maps(calls, rnd), "table_from": "c13_%d_a" % i})
    go, model, distinct, hist, nd = writer_corr(rep, cases, wd, ["new", "calls", "writes"], set())
    stage["correspondence"] = round(time.time() - t0, 1); t0 = time.time()
    # oracle: permuted insertion orders give byte-identical output on the implementation
    nperm = 0
    for i in range(n):
        a = go.get("c13_%d_a" % i)
        for suf in ("b", "c"):
            b = go.get("c13_%d_%s" % (i, suf))
            if a and b:
                nperm += 1
                if a["writes"] != b["writes"]:
                    rep.add_violation("oracle", "case c13_%d: output depends on map insertion order" % i,
                                      cw.case_replay(cases[3 * i]) + cw.case_replay(cases[3 * i + (1 if suf == "b" else 2)]))
    # schedules: same scripts under GOMAXPROCS in {1,2,4,16} and repeated 3x, 16 concurrent goroutines
    sched_runs = 0
    subset = cases[::3][: (40 if tier == "quick" else 400)]
    scripts = [(c["id"], gw.script_lines(c["o"], c["calls"], None)) for c in subset]
    ref = {c["id"]: go.get(c["id"]) for c in subset}
    for procs in (1, 2, 4, 16):
        env = dict(os.environ, GOMAXPROCS=str(procs), VERIF_REPS="3", VERIF_GOROUTINES="16")
        raw, crashed = cm.run_sharded(os.path.join(cm.BUILD, "impl"), "writerep", scripts, wd, "rep%d" % procs, nshards=2, extra_env=env)
        for cmd, rc, err in crashed:
            rep.add_violation("executor-crash", "%s exited %s: %s" % (cmd, rc, err), [], failing_input=False)
        for cid, lines in raw.items():
            r = ref.get(cid)
            if not r:
                continue
            h = hashlib.sha256()
            for w in r["writes"]:
                h.update(len(w).to_bytes(8, "little")); h.update(w)
            want = h.hexdigest()
            for l in lines:
                f = l.split(" ")
                if f[0] == "rep":
                    sched_runs += 1
                    if f[2] != want:
                        c = [x for x in subset if x["id"] == cid][0]
                        rep.add_violation("oracle", "case %s: repetition %s under GOMAXPROCS=%d (16 goroutines) produced different output" % (cid, f[1], procs), cw.case_replay(c))
    stage["repetition"] = round(time.time() - t0, 1); t0 = time.time()
    # independent writers of DIFFERENT workloads running at the same time (state shared between writers - pools,
    # package-level scratch - only shows when the concurrent writers serialise different content)
    conc = [(c["id"], gw.script_lines(c["o"], c["calls"], None)) for c in cases[::3][:400]]
    for i in range(16 if tier == "quick" else 64):
        o = g0.wopts()
        calls = [["H", b"p", b"l"]]
        for j in range(30):
            calls.append(["C", j + 1, 0, b"t%d" % j, b"e", g0.kv(6) or [(b"k", b"v%d" % j)]])
            calls.append(["D", b"m%d" % j, g0.kv(6) or [(b"a", b"b" * (j + 1))]])
        calls.append(["X"])
        conc.append(("c13_maps_%d" % i, gw.script_lines(o, calls, None)))
    conc_runs = 0
    for procs in ((4, 16) if tier == "quick" else (2, 4, 16)):
        # with 16 processors each workload's writers also share ONE WriterOptions value (a caller that keeps its options around)
        env = dict(os.environ, GOMAXPROCS=str(procs), VERIF_REPS="2" if tier == "quick" else "6", VERIF_GOROUTINES="16",
                   VERIF_SHARE_OPTS="1" if procs == 16 else "0")
        raw, crashed = cm.run_sharded(os.path.join(cm.BUILD, "impl"), "writeconc", conc, wd, "conc%d" % procs, nshards=1, extra_env=env)
        for cmd, rc, err in crashed:
            rep.add_violation("executor-crash", "%s exited %s: %s" % (cmd, rc, err), [], failing_input=False)
        byid = dict(conc)
        for cid, lines in raw.items():
            for l in lines:
                m = re.match(r"conc ref=(\S+) runs=(\d+) differing=(\d+)", l)
                if m:
                    conc_runs += int(m.group(2))
                    if int(m.group(3)):
                        rep.add_violation("oracle", "case %s: %s of %s concurrent runs (16 goroutines writing different workloads, GOMAXPROCS=%d) produced output different from the same calls made alone"
                                          % (cid, m.group(3), m.group(2), procs), ["# mode writeconc: run together with the other cases of the script", "case " + cid] + byid[cid] + ["end"])
    stage["concurrent"] = round(time.time() - t0, 1); t0 = time.time()
    # the same, with read-back by independent lexers and readers, under the race detector
    import subprocess
    race_reports = 0
    okr, msg = cm.build_harness_race()
    if not okr:
        rep.add_violation("harness-build", "race-detector build of the harness failed: " + msg[-1500:], [], failing_input=False)
    else:
        spath = os.path.join(wd, "race.script")
        # the race detector costs 5-20x in time and memory: the map-heavy workloads plus the smallest generated ones
        ngen = min(400, len(cases) // 3)
        small = sorted(conc[:ngen], key=lambda c: sum(len(l) for l in c[1]))[: (10 if tier == "quick" else 30)]
        rconc = small + (conc[ngen:][:8] if tier == "quick" else conc[ngen:][:16])
        with open(spath, "w") as f:
            for cid, lines in rconc:
                f.write("case %s\n%s\nend\n" % (cid, "\n".join(lines)))
        env = dict(os.environ, GOMAXPROCS="8", VERIF_REPS="1" if tier == "quick" else "2", VERIF_GOROUTINES="16", VERIF_CONC_READ="1", VERIF_SHARE_OPTS="1",
                   GORACE="exitcode=0 halt_on_error=0")
        try:
            p = subprocess.run([os.path.join(cm.BUILD, "impl_race"), "writeconc", spath], stdout=subprocess.PIPE, stderr=subprocess.PIPE, env=env, timeout=9000)
        except subprocess.TimeoutExpired as te:
            # neither a hang nor a slow machine can be told apart from here: the stage is not shown to have passed
            rep.add_violation("executor-crash", "the race-detector run of %d concurrent workloads did not finish within 9000 s" % len(rconc), [], failing_input=False)
            p = subprocess.CompletedProcess(te.cmd, 0, stdout=te.stdout or b"", stderr=te.stderr or b"")
        errtxt = p.stderr.decode(errors="replace")
        if p.returncode != 0:
            rep.add_violation("executor-crash", "impl_race writeconc exited %s: %s" % (p.returncode, errtxt[-1500:]), [], failing_input=False)
        races = [b for b in errtxt.split("==================") if "WARNING: DATA RACE" in b]
        lib_races = [b for b in races if "foxglove/mcap/go/mcap" in b]
        race_reports = len(lib_races)
        seen = set()
        for b in lib_races:
            frames = re.findall(r"^\s+(github.com/foxglove/mcap/go/mcap\.\S+)\(\)\n\s+(\S+)", b, re.M)
            key = tuple(frames[:2])
            if key in seen:
                continue
            seen.add(key)
            rep.add_violation("oracle", "data race between independent writers/readers (16 goroutines, race detector): " +
                              "; ".join("%s %s" % (fn, os.path.basename(loc)) for fn, loc in frames[:4]),
                              ["# mode writeconc under -race (VERIF_CONC_READ=1): run the whole script; report:"] + ["# " + l for l in b.strip().splitlines()[:40]] +
                              ["case %s\n%s\nend" % (cid, "\n".join(lines)) for cid, lines in rconc[-3:]])
        raw, _ = cm.parse_obs(p.stdout.decode(errors="replace"))
        for cid, lines in raw.items():
            for l in lines:
                m = re.match(r"conc ref=(\S+) runs=(\d+) differing=(\d+)", l)
                if m:
                    conc_runs += int(m.group(2))
                    if int(m.group(3)):
                        rep.add_violation("oracle", "case %s: %s of %s concurrent write+read-back runs (race build) differ from the same calls made alone" % (cid, m.group(3), m.group(2)),
                                          ["# mode writeconc VERIF_CONC_READ=1", "case " + cid] + dict(rconc)[cid] + ["end"])
    stage["race"] = round(time.time() - t0, 1)
    cov = summarize(rep, len(cases) + sched_runs + conc_runs, len(distinct),
                    "each workload written with 3 different insertion orders of every metadata map (byte-identical output required, and equal to the model's); a subset re-executed 3x sequentially plus 16 goroutines concurrently under GOMAXPROCS 1,2,4,16 (hash of bytes+segmentation must equal the single run); all workloads plus map-heavy ones written concurrently by 16 goroutines in different rotations (independent writers of different content overlapping) under GOMAXPROCS 2,4,16, once with a fresh WriterOptions value per writer and once with one value shared by all writers of a workload; the same with read-back through independent lexers/readers in a race-detector build (any report with a go/mcap frame is a violation)",
                    [cw.case_replay(c) for c in cases[:2]],
                    {"input_distribution": hist, "permutation_pairs": nperm, "schedule_runs": sched_runs, "concurrent_heterogeneous_runs": conc_runs, "race_detector_reports_in_library": race_reports, "stage_seconds": stage, "disagreements": nd})
    return cov, ["goroutine schedules are sampled by the Go runtime, not enumerated (partial for the schedule quantifier)"]


@prop("C14")
def check_c14(rep, tier, seed, wd, replay):
    nbase = 40 if tier == "quick" else 400
    g0 = gw.Gen(seed * 1000 + 14)
    base = []
    for i in range(nbase):
        o = g0.wopts()
        if g0.r.random() < 0.5:
            o["chunksize"] = g0.r.choice([1, 7, 64])
        calls = g0.calls(2, 14, legal=True)
        base.append({"id": "c14b_%d" % i, "o": o, "calls": calls})
    # attachment source faults: failing source, early/late end
    for i in range(nbase):
        o = g0.wopts()
        d = g0.data()
        decl = g0.r.choice([len(d), len(d) + 1, max(0, len(d) - 1), 0, len(d) + 1000])
        fail = 1 if g0.r.random() < 0.4 else 0
        cut = g0.r.randint(0, len(d))
        frags = [x for x in (d[:cut], d[cut:]) if x]
        calls = [("H", b"", b""), ("A", 1, 2, b"n", b"m", decl, fail, frags), ("D", b"x", []), ("X",)]
        base.append({"id": "c14a_%d" % i, "o": o, "calls": calls, "attsrc": (decl, len(d), fail)})
    go0, model0, distinct, hist, nd = writer_corr(rep, base, wd, ["new", "calls", "nw", "writes", "stats"], set(), tag="b")
    for c in base:
        if "attsrc" in c and c["id"] in go0:
            decl, ln, fail = c["attsrc"]
            r = go0[c["id"]]["calls"]
            if (fail or decl != ln) and len(r) > 1 and r[1] == "ok":
                rep.add_violation("oracle", "case %s: attachment source fails=%s declared=%d actual=%d but WriteAttachment returned ok" % (c["id"], fail, decl, ln), cw.case_replay(c))
    fcases = []
    budget = 6000 if tier == "quick" else 120000
    for c in base[:nbase]:
        g = go0.get(c["id"])
        if not g or g["new"] != "ok":
            continue
        N = len(g["writes"])
        for k in range(N):
            for mode, perm in (("err", False), ("short", True)) if (k % 2 == 0 or tier != "quick") else (("short", False), ("err", True)):
                if len(fcases) >= budget:
                    break
                fcases.append({"id": "%s_k%d_%s%d" % (c["id"], k, mode, perm), "o": c["o"], "calls": c["calls"],
                               "fault": (k, mode, perm), "table_from": c["id"], "base": c["id"]})
    go, model, d2, h2, nd2 = writer_corr(rep, fcases, wd, ["new", "calls", "nw", "writes"], set(), tag="f", extra=go0)
    npanic = 0
    for c in fcases:
        g = go.get(c["id"])
        ref = go0.get(c["base"])
        if not g or not ref:
            continue
        k, mode, perm = c["fault"]
        if "panic" in g["calls"] or g["new"] == "panic":
            npanic += 1
            rep.add_violation("oracle", "case %s: a writer call panicked after a sink fault" % c["id"], cw.case_replay(c))
        # which call performed write k
        if g["new"] != "ok":
            ok = k < 1   # NewWriter's own write failed
            if not ok:
                rep.add_violation("oracle", "case %s: NewWriter failed though fault index %d not reached" % (c["id"], k), cw.case_replay(c))
        else:
            prev = 1 if not c["o"]["skipmagic"] else 0
            hit = None
            for j, nw in enumerate(g["nw"]):
                if prev <= k < nw:
                    hit = j
                    break
                prev = nw
            if hit is not None and g["calls"][hit] == "ok":
                rep.add_violation("oracle", "case %s: destination write %d failed during call %d but the call returned nil" % (c["id"], k, hit), cw.case_replay(c))
        acc = b"".join(g["writes"][:k + 1])
        full = b"".join(ref["writes"])
        if not full.startswith(acc):
            rep.add_violation("oracle", "case %s: bytes accepted up to the failing write are not a prefix of the fault-free output" % c["id"], cw.case_replay(c))
        if perm and b"".join(g["writes"]) != acc:
            rep.add_violation("oracle", "case %s: bytes accepted after a permanent fault" % c["id"], cw.case_replay(c))
    cov = summarize(rep, len(base) + len(fcases), len(distinct) + len(set((c["base"], c["fault"][0]) for c in fcases)),
                    "for each base workload every index k of a destination Write is failed (error / short write+error, transient / permanent); compared with the model: per-call results, write counts, accepted bytes; oracle: the call performing write k returns non-nil, no panic, accepted bytes up to the fault are a prefix of the fault-free output; attachment sources failing or ending early/late must make WriteAttachment fail; distinct = (workload class) + (workload, k)",
                    [cw.case_replay(c) for c in fcases[:2]],
                    {"input_distribution": hist, "fault_runs": len(fcases), "base_workloads": len(base), "disagreements": nd + nd2, "exhaustive": len(fcases) < budget})
    return cov, ["a sink that returns a short count with a nil error violates io.Writer and is outside the property"]


# ------------------------------------------------------------------ lexer family
import chk_lex as cl  # noqa: E402
import mcapspec  # noqa: E402


def lex_corr(rep, cases, wd, tag="lex"):
    go, model, crashed = cl.run_lex(cases, wd, tag)
    for cmd, rc, err in crashed:
        rep.add_violation("executor-crash", "%s exited %s: %s" % (cmd, rc, err), [], failing_input=False)
    nd = 0
    for c in cases:
        g, m = go.get(c["id"]), model.get(c["id"])
        d = cl.diff_lex(g, m)
        if d:
            nd += 1
            c["_disagree"] = d
    return go, model, nd


def events_prefix(short, full):
    """short is a prefix of full, except that the last attachment event may carry fewer data bytes."""
    if len(short) > len(full):
        return False
    for i, e in enumerate(short):
        if e == full[i]:
            continue
        if i == len(short) - 1 and e.startswith("att ") and full[i].startswith("att "):
            a, b = e.split(" "), full[i].split(" ")
            if a[1:6] == b[1:6] and (a[6] == "-" or b[6].startswith(a[6])):
                continue
        return False
    return True


@prop("C09")
def check_c09(rep, tier, seed, wd, replay):
    nfiles = 24 if tier == "quick" else 300
    maxlen = 1500 if tier == "quick" else 16000
    files, crashed = cl.written_files(seed * 1000 + 9, nfiles * 2, "c09f", wd, nmax=10)
    files = [f for f in files if len(f["file"]) <= maxlen][:nfiles]
    cases = []
    for fi, f in enumerate(files):
        validate = fi % 2
        seek = (fi // 2) % 2
        lo = {"validate": validate, "cb": "full", "skipmagic": 1 if f["o"]["skipmagic"] else 0}
        f["lo"] = lo
        cases.append({"id": "%s_full" % f["id"], "file": f["file"], "lopts": lo, "src": {"seek": seek}, "base": f})
        for cut in range(len(f["file"])):
            cases.append({"id": "%s_cut%d" % (f["id"], cut), "file": f["file"][:cut], "lopts": lo, "src": {"seek": seek}, "base": f, "cut": cut})
    go, model, nd = lex_corr(rep, cases, wd, "c09")
    ncuts = 0
    for c in cases:
        g = go.get(c["id"])
        probs = []
        if g is not None and "cut" in c:
            ncuts += 1
            full = go.get("%s_full" % c["base"]["id"])
            if g["panic"]:
                probs.append("lexer crashed on the truncated file: %s" % g["panic"])
            elif g["new"] == "ok" and full:
                if not events_prefix(g["events"], full["events"]):
                    probs.append("records returned for the truncated file are not a prefix of the original sequence")
                if g["end"] is None:
                    probs.append("read of a truncated file did not end")
                # completeness: every message of every chunk wholly before the cut
                if "chunk_ends" not in c["base"]:
                    try:
                        d = mcapspec.decode(c["base"]["file"], cw.plain_lookup(c["base"]["g"]), skip_magic=c["base"]["o"]["skipmagic"])
                        ends = []
                        nm = 0
                        for ch in d["chunks"]:
                            nm_in = len(ch["msgs"])
                            ends.append((ch["offset"] + ch["length"], nm_in))
                        c["base"]["chunk_ends"] = ends
                    except mcapspec.SpecError:
                        c["base"]["chunk_ends"] = []
                want = sum(n for end, n in c["base"]["chunk_ends"] if end <= c["cut"])
                got = sum(1 for e in g["events"] if e.startswith("tok 5 "))
                if got < want and not c["base"]["lo"]["validate"] is None:
                    probs.append("cut at %d: %d messages of completely written chunks, only %d returned" % (c["cut"], want, got))
        for p in probs:
            rep.add_violation("oracle", "case %s: %s" % (c["id"], p), cl.lex_replay(c))
        if c.get("_disagree"):
            rep.add_violation("correspondence", "case %s: %s" % (c["id"], c["_disagree"]), cl.lex_replay(c), failing_input=bool(probs))
    # the non-indexed message iterator over the same cuts (Next and NextInto alternately)
    rcases = []
    for fi, f in enumerate(files):
        if f["o"]["skipmagic"] or f["o"].get("custom"):
            continue
        into = [[], ["into"], ["range"]][fi % 3]
        rcases.append({"id": "%s_rfull" % f["id"], "file": f["file"], "ropts": ["index:0"], "ops": [["messages"] + into], "base": f})
        for cut in range(len(f["file"])):
            rcases.append({"id": "%s_rcut%d" % (f["id"], cut), "file": f["file"][:cut], "ropts": ["index:0"], "ops": [["messages"] + into], "base": f, "cut": cut})
    go_r, model_r, nd2 = read_corr(rep, rcases, wd, "c09r", compare_slots=False)
    nrcuts = 0
    for c in rcases:
        g = go_r.get(c["id"])
        full = go_r.get("%s_rfull" % c["base"]["id"])
        probs = []
        if g is not None and "cut" in c and full and full["ops"]:
            nrcuts += 1
            fo = full["ops"][-1]
            if g["panic"] or (g["ops"] and g["ops"][-1]["panic"]):
                probs.append("message iterator crashed on the truncated file: %s" % (g["panic"] or g["ops"][-1]["panic"]))
            elif g["ops"] and (g["ops"][-1]["head"] or "").startswith("messages ok"):
                o = g["ops"][-1]
                if o["msgs"] != fo["msgs"][:len(o["msgs"])]:
                    probs.append("messages returned for the truncated file are not a prefix of the original sequence")
                if o["end"] is None:
                    probs.append("read of a truncated file did not end")
                want = sum(n for end, n in c["base"].get("chunk_ends", []) if end <= c["cut"])
                if len(o["msgs"]) < want:
                    probs.append("cut at %d: %d messages of completely written chunks, only %d returned by the iterator" % (c["cut"], want, len(o["msgs"])))
        report_case(rep, c, probs[:2], cr.read_replay)
    nd += nd2
    distinct = len(set((c["base"]["id"], c.get("cut")) for c in cases))
    cov = summarize(rep, len(cases) + len(rcases), distinct,
                    "files written by the real writer (none/zstd/lz4/xor, chunked or not), every cut position 0..len-1 (exhaustive per file), validation on/off, seekable/non-seekable source, attachment callback reading all data; compared with the lexer model event by event; the same cuts through Messages(UsingIndex(false)) with Next and NextInto, compared with the reader model; oracle: events of the cut file are a prefix of the uncut file's (last attachment may have fewer data bytes), the read ends, no crash, all messages of fully written chunks returned",
                    [cl.lex_replay(c)[:4] for c in cases[1:3]],
                    {"files": len(files), "cuts": ncuts, "iterator_cuts": nrcuts, "disagreements": nd, "exhaustive": True,
                     "compressions": sorted(set(f["o"]["comp"] for f in files))})
    return cov, ["streaming decompressors are oracles: their behaviour on each truncated payload is recorded by calling the codec directly"]


def flip_variants(r, data, lo, hi, tier):
    """yield (description, new bytes): single-bit flips of every byte in [lo,hi), plus random overwrites/swaps"""
    for pos in range(lo, hi):
        bits = range(8) if tier != "quick" or (hi - lo) <= 96 else [r.randrange(8), r.randrange(8)]
        for bit in set(bits):
            b = bytearray(data); b[pos] ^= (1 << bit)
            yield ("flip@%d.%d" % (pos, bit), bytes(b))
    if hi - lo >= 2:
        for _ in range(6):
            b = bytearray(data)
            a = r.randrange(lo, hi); n = r.randint(1, min(8, hi - a))
            for i in range(a, a + n):
                b[i] = r.randrange(256)
            if bytes(b) != data:
                yield ("overwrite@%d+%d" % (a, n), bytes(b))
        for _ in range(4):
            b = bytearray(data)
            n = r.randint(1, max(1, (hi - lo) // 2))
            a = r.randrange(lo, hi - n + 1); c = r.randrange(lo, hi - n + 1)
            seg_a, seg_c = bytes(b[a:a + n]), bytes(b[c:c + n])
            b[a:a + n] = seg_c
            b[c:c + n] = seg_a
            if bytes(b) != data:
                yield ("swap@%d,%d+%d" % (a, c, n), bytes(b))


@prop("C07")
def check_c07(rep, tier, seed, wd, replay):
    import random
    r = random.Random(seed * 1000 + 7)
    nfiles = 30 if tier == "quick" else 400
    maxlen = 1200 if tier == "quick" else 6000
    files, crashed = cl.written_files(seed * 1000 + 7, nfiles * 3, "c07f", wd, nmax=10, force={"crc": True})
    files = [f for f in files if len(f["file"]) <= maxlen and (f["g"]["chunks"] or any(c[0] == "A" for c in f["calls"]))][:nfiles]
    cases = []
    budget = 6000 if tier == "quick" else 200000
    natt = 0
    per_file = max(150, 2 * budget // max(1, len(files)))
    for fi, f in enumerate(files):
        data = f["file"]
        try:
            d = mcapspec.decode(data, cw.plain_lookup(f["g"]), skip_magic=f["o"]["skipmagic"])
        except mcapspec.SpecError:
            continue
        emitinv = fi % 2
        lo = {"validate": 1, "emitinvalid": emitinv, "cb": ("full", "fullrev")[(fi // 2) % 2], "acrc": 1, "skipmagic": 1 if f["o"]["skipmagic"] else 0}
        f["lo"] = lo
        cases.append({"id": "%s_orig" % f["id"], "file": data, "lopts": lo, "base": f})
        nfile_cases = 0
        for k, ch in enumerate(d["chunks"]):
            pay_lo = ch["offset"] + ch["length"] - ch["csize"]
            pay_hi = ch["offset"] + ch["length"]
            for desc, nb in flip_variants(r, data, pay_lo, pay_hi, tier):
                # every file gets its share of the budget, and the two modes (error / invalid-chunk token, after which the
                # caller reads on) alternate from one damaged copy to the next: neither depends on which files come first
                if len(cases) - natt < budget and nfile_cases < per_file:
                    nfile_cases += 1
                    lo_k = dict(lo, emitinvalid=(len(cases) % 2))
                    cases.append({"id": "%s_k%d_%s" % (f["id"], k, desc), "file": nb, "lopts": lo_k, "base": f, "chunk": k, "kind": "chunk",
                                  "single_byte": desc.startswith("flip"), "comp": ch["compression"], "crc": ch["crc"], "n_inner": ch["n_inner"]})
        for k, a in enumerate(d["attachments"]):
            # attachment content: fields and data (not the record length prefix, not the crc itself); attachments are few and
            # small, so they have a budget of their own (the chunk flips of the first files would otherwise use all of it) and
            # every damaged attachment is read with both legal orders of the two CRC accessors
            lo_a, hi_a = a["offset"] + 9, a["offset"] + a["length"] - 4
            for desc, nb in flip_variants(r, data, lo_a, hi_a, "quick"):
                if natt < budget // 3 and desc.startswith("flip"):
                    for cbo in ("full", "fullrev"):
                        natt += 1
                        cases.append({"id": "%s_a%d_%s_%s" % (f["id"], k, desc, cbo), "file": nb, "lopts": dict(lo, cb=cbo), "base": f, "att": k, "kind": "att",
                                      "pos": int(desc[5:].split(".")[0]) - lo_a, "alen": (len(a["name"]), len(a["media_type"]))})
    go, model, nd = lex_corr(rep, cases, wd, "c07")
    stats = {"chunk_damage": 0, "att_damage": 0, "detected": 0, "unchanged": 0, "uncompressed_single_byte": 0}
    for c in cases:
        g = go.get(c["id"])
        probs = []
        if g is not None and "kind" in c:
            orig = go.get("%s_orig" % c["base"]["id"])
            if g["panic"]:
                probs.append("lexer crashed on damaged input: %s" % g["panic"])
            elif orig and c["kind"] == "chunk":
                stats["chunk_damage"] += 1
                # events before the damaged chunk k must be identical; output either equals the original or an
                # error / invalid-chunk token shows up no later than chunk k
                same = g["events"] == orig["events"] and g["end"] == orig["end"]
                if same:
                    stats["unchanged"] += 1
                    if c["comp"] == b"" and c["single_byte"] and c["crc"] != 0:
                        probs.append("single-byte damage in an uncompressed chunk went undetected (CRC-32 guarantees detection)")
                else:
                    # find first difference
                    n = next((i for i in range(min(len(g["events"]), len(orig["events"]))) if g["events"][i] != orig["events"][i]),
                             min(len(g["events"]), len(orig["events"])))
                    if n < len(g["events"]) and g["events"][n] != "invalidchunk":
                        probs.append("damaged chunk yielded a record that differs from the original without an error first (event %d: %s)" % (n, g["events"][n][:80]))
                    elif n < len(g["events"]) and not (g["events"][n + 1:] == orig["events"][n + c["n_inner"]:] or
                                                       (g["end"] not in ("err:eof", None) and
                                                        g["events"][n + 1:] == orig["events"][n + c["n_inner"]:][:len(g["events"][n + 1:])])):
                        # invalid-chunk token mode: the caller may read on; what follows must be the rest of the file AFTER the damaged
                        # chunk (or a prefix of it ending in an error), never the unvalidated content of that chunk
                        tail = g["events"][n + 1:]
                        probs.append("after the invalid-chunk token the lexer returned %d records where the original has %d after that chunk (first: %s): content of a chunk that failed its CRC was handed out"
                                     % (len(tail), len(orig["events"][n + c["n_inner"]:]), (tail[0] if tail else "-")[:80]))
                    else:
                        stats["detected"] += 1
                        if c["comp"] == b"" and c["single_byte"]:
                            stats["uncompressed_single_byte"] += 1
            elif orig and c["kind"] == "att":
                stats["att_damage"] += 1
                ga = [e for e in g["events"] if e.startswith("att ")]
                oa = [e for e in orig["events"] if e.startswith("att ")]
                k = c["att"]
                # flips in length fields re-frame the record; only content flips are guaranteed detectable
                nlen, mlen = c["alen"]
                in_len_field = (16 <= c["pos"] < 20) or (20 + nlen <= c["pos"] < 24 + nlen) or (24 + nlen + mlen <= c["pos"] < 32 + nlen + mlen)
                if k < len(ga) and not in_len_field:
                    f = ga[k].split(" ")
                    if f[8] == f[9] and not f[8].startswith("err"):
                        probs.append("altered attachment content but computed CRC equals parsed CRC (%s)" % ga[k][:80])
                    else:
                        stats["detected"] += 1
        for p in probs:
            rep.add_violation("oracle", "case %s: %s" % (c["id"], p), cl.lex_replay(c))
        if c.get("_disagree"):
            if c.get("kind") == "chunk" and c.get("comp") in (b"zstd", b"lz4") and not probs:
                # the third-party stream decoders report a damaged frame checksum at a timing-dependent
                # point (observed: the same input gives 'all data, no error' or 'error' on different runs);
                # the decoder is an oracle, so only the property oracle decides these cases
                stats["codec_timing_tolerated"] = stats.get("codec_timing_tolerated", 0) + 1
            else:
                rep.add_violation("correspondence", "case %s: %s" % (c["id"], c["_disagree"]), cl.lex_replay(c), failing_input=bool(probs))
    cov = summarize(rep, len(cases), len(set(c["id"] for c in cases)),
                    "files written with CRCs on (none/zstd/lz4/xor chunks); every byte of every chunk payload damaged by single-bit flips (all 8 bits per byte for short payloads and in the thorough tier), random multi-byte overwrites and range swaps; every attachment content byte flipped; lexer with ValidateChunkCRCs (EmitInvalidChunks on alternate files) compared with the model; oracle: output equals the undamaged output or an error/invalid-chunk token precedes any differing record; uncompressed single-byte damage must be detected; attachment computed CRC != parsed CRC",
                    [cl.lex_replay(c)[:4] for c in cases[1:3]], dict(stats, files=len(files), disagreements=nd))
    return cov, ["for compressed chunks detection is up to CRC-32 collisions of the decompressed bytes (explicit disjunct in theorem C07_chunk)"]


@prop("C15")
def check_c15(rep, tier, seed, wd, replay):
    nfiles = 16 if tier == "quick" else 200
    maxlen = 1200 if tier == "quick" else 8000
    files, crashed = cl.written_files(seed * 1000 + 15, nfiles * 3, "c15f", wd, nmax=10)
    files = [f for f in files if len(f["file"]) <= maxlen][:nfiles]
    cases = []
    for fi, f in enumerate(files):
        validate = fi % 2
        lo = {"validate": validate, "cb": "full", "skipmagic": 1 if f["o"]["skipmagic"] else 0}
        f["lo"] = lo
        cases.append({"id": "%s_ref" % f["id"], "file": f["file"], "lopts": lo, "src": {"seek": 1}, "base": f})
        for frag in ("one", "halving", "rand1", "dataeof"):
            for seek in (0, 1):
                cases.append({"id": "%s_%s_%d" % (f["id"], frag, seek), "file": f["file"], "lopts": lo,
                              "src": {"seek": seek, "frag": frag}, "base": f, "frag": frag})
        for pos in range(len(f["file"]) + 1):
            frag = ("all", "one", "rand2")[pos % 3]
            cases.append({"id": "%s_fail%d" % (f["id"], pos), "file": f["file"], "lopts": lo,
                          "src": {"seek": pos % 2, "frag": frag, "fail": pos}, "base": f, "fail": pos})
    go, model, nd = lex_corr(rep, cases, wd, "c15")
    nfrag = nfail = 0
    for c in cases:
        g = go.get(c["id"])
        ref = go.get("%s_ref" % c["base"]["id"])
        probs = []
        if g is not None and ref is not None:
            if g["panic"]:
                probs.append("lexer crashed: %s" % g["panic"])
            elif "frag" in c:
                nfrag += 1
                if (g["new"], g["events"], g["end"]) != (ref["new"], ref["events"], ref["end"]):
                    probs.append("result depends on how the source fragments its reads (%s)" % c["frag"])
            elif "fail" in c:
                nfail += 1
                if g["new"] == "ok":
                    if not events_prefix(g["events"], ref["events"]):
                        probs.append("records before an injected I/O error at byte %d are not a prefix of the true sequence" % c["fail"])
                    if g["end"] in ("err:eof", None):
                        probs.append("read over a source failing at byte %d ended with a clean end-of-file" % c["fail"])
                elif g["new"] != "err:badmagic":
                    probs.append("NewLexer: %s" % g["new"])
        for p in probs:
            rep.add_violation("oracle", "case %s: %s" % (c["id"], p), cl.lex_replay(c))
        if c.get("_disagree"):
            rep.add_violation("correspondence", "case %s: %s" % (c["id"], c["_disagree"]), cl.lex_replay(c), failing_input=bool(probs))
    # transient faults: the source returns the error once and then carries on (or reports end-of-file). The model's
    # sources are sticky, so these runs are decided by the property's oracle on the implementation alone.
    tcases = []
    for fi, f in enumerate(files):
        step = 1 if fi < (6 if tier == "quick" else 40) else 5
        for pos in range(0, len(f["file"]) + 1, step):
            for mode in ("once", "theneof"):
                tcases.append({"id": "%s_%s%d" % (f["id"], mode, pos), "file": f["file"], "lopts": f["lo"],
                               "src": {"seek": pos % 2, "frag": ("all", "rand3")[pos % 2], "fail": pos, "failmode": mode}, "base": f, "fail": pos, "mode": mode})
    traw, tcr = cm.run_sharded(os.path.join(cm.BUILD, "impl"), "lex", [(c["id"], cl.lex_lines(c)) for c in tcases], wd, "c15t")
    for cmd, rc, err in tcr:
        rep.add_violation("executor-crash", "%s exited %s: %s" % (cmd, rc, err), [], failing_input=False)
    ntrans = 0
    for c in tcases:
        g = cl.parse_lex_obs(traw.get(c["id"], []))
        ref = go.get("%s_ref" % c["base"]["id"])
        if ref is None or g["new"] is None:
            continue
        ntrans += 1
        probs = []
        # an error met while the attachment callback reads the data is delivered to the callback (the harness's
        # callback prints it and carries on): the caller has been told there, so the read ends at that event
        for i, e in enumerate(g["events"]):
            if e.startswith("att ") and " err:injected" in e:
                g = dict(g, events=g["events"][:i + 1], end="err:injected")
                break
        if g["panic"]:
            probs.append("lexer crashed: %s" % g["panic"])
        elif g["new"] == "ok":
            if not events_prefix(g["events"], ref["events"]):
                probs.append("records returned before a transient I/O error at byte %d (%s) are not a prefix of the true sequence" % (c["fail"], c["mode"]))
            if g["end"] in ("err:eof", None):
                probs.append("the source returned an I/O error at byte %d (%s) but the read ended with a clean end-of-file after %d of %d records"
                             % (c["fail"], c["mode"], len(g["events"]), len(ref["events"])))
        elif g["new"] not in ("err:badmagic", "err:injected"):
            probs.append("NewLexer: %s" % g["new"])
        for p in probs[:1]:
            rep.add_violation("oracle", "case %s: %s" % (c["id"], p), cl.lex_replay(c))
    # both message iterators over failing sources (sticky faults compared with the reader model; transient ones by the oracle)
    rcases = []
    for fi, f in enumerate(files[: (8 if tier == "quick" else 60)]):
        if f["o"]["skipmagic"] or f["o"].get("custom"):
            continue
        for ropts, tagm in ((["index:0"], "scan"), ([], "idx")):
            rcases.append({"id": "%s_%s_ref" % (f["id"], tagm), "file": f["file"], "ropts": ropts, "ops": [["messages"]], "base": f, "tagm": tagm})
            for pos in range(0, len(f["file"]) + 1, 3 if tier == "quick" else 1):
                for mode in ("", "once", "theneof"):
                    src = {"seek": 1, "fail": pos, "frag": ("all", "rand4")[pos % 2]}
                    if mode:
                        src["failmode"] = mode
                    rcases.append({"id": "%s_%s_%s%d" % (f["id"], tagm, mode or "fail", pos), "file": f["file"], "ropts": ropts, "ops": [["messages"]],
                                   "src": src, "base": f, "tagm": tagm, "fail": pos, "mode": mode})
    sticky = [c for c in rcases if not c.get("mode")]
    go_r, model_r, nd2 = read_corr(rep, sticky, wd, "c15r", compare_slots=False)
    trans = [c for c in rcases if c.get("mode")]
    raw2, cr2 = cm.run_sharded(os.path.join(cm.BUILD, "impl"), "read", [(c["id"], cr.read_lines(c)) for c in trans], wd, "c15rt")
    for cmd, rc, err in cr2:
        rep.add_violation("executor-crash", "%s exited %s: %s" % (cmd, rc, err), [], failing_input=False)
    for c in trans:
        go_r[c["id"]] = cr.parse_read_obs(raw2.get(c["id"], []))
    niter = 0
    for c in rcases:
        if "fail" not in c:
            continue
        g = go_r.get(c["id"])
        ref = go_r.get("%s_%s_ref" % (c["base"]["id"], c["tagm"]))
        probs = []
        if not g or not ref or not ref["ops"] or not g["ops"]:
            continue
        niter += 1
        o, ro = g["ops"][-1], ref["ops"][-1]
        if g["panic"] or o["panic"]:
            probs.append("reader crashed over a failing source: %s" % (g["panic"] or o["panic"]))
        elif (o["head"] or "").startswith("messages ok") and (ro["head"] or "").startswith("messages ok") and ro["end"] == "err:eof":
            full = ro["msgs"]
            if o["end"] == "err:eof":
                if o["msgs"] != full:
                    probs.append("%s iterator over a source failing at byte %d (%s) ended with a clean end-of-file after %d of %d messages"
                                 % (c["tagm"], c["fail"], c["mode"] or "sticky", len(o["msgs"]), len(full)))
            elif o["msgs"] != full[:len(o["msgs"])]:
                probs.append("%s iterator: messages returned before the I/O error at byte %d are not a prefix of the true sequence" % (c["tagm"], c["fail"]))
        report_case(rep, c, probs[:1], cr.read_replay)
    cov = summarize(rep, len(cases) + ntrans + niter, len(set(c["id"] for c in cases)),
                    "files written by the real writer; each read through sources delivering 1 byte, halving sizes, random sizes, data together with EOF (seekable and not) and with an injected non-EOF error at every byte position 0..len (exhaustive per file) under three fragmentations; lexer compared with the model; transient faults (error once then data continues / then EOF) at every position; both message iterators (scan, and indexed over a seekable source) over sticky (model-compared) and transient faults; oracle: fragmentation-independence, prefix + non-EOF error end (a clean end only with the complete sequence), no crash",
                    [cl.lex_replay(c)[:4] for c in cases[1:3]],
                    {"files": len(files), "fragmentation_runs": nfrag, "fault_positions": nfail, "transient_fault_runs": ntrans, "iterator_fault_runs": niter,
                     "disagreements": nd + nd2, "exhaustive": True})
    return cov, ["decoders' propagation of a source error is recorded per instance by calling the codec directly"]


# ------------------------------------------------------------------ reader family
import chk_read as cr  # noqa: E402


def read_corr(rep, cases, wd, tag="read", compare_slots=True):
    go, model, crashed = cr.run_read(cases, wd, tag)
    for cmd, rc, err in crashed:
        rep.add_violation("executor-crash", "%s exited %s: %s" % (cmd, rc, err), [], failing_input=False)
    nd = 0
    for c in cases:
        d = cr.diff_read(go.get(c["id"]), model.get(c["id"]), compare_slots)
        if d:
            nd += 1
            c["_disagree"] = d
    return go, model, nd


def report_case(rep, c, probs, replay_fn):
    for p in probs:
        rep.add_violation("oracle", "case %s: %s" % (c["id"], p), replay_fn(c), key=c.get("_key"))
    if c.get("_disagree"):
        rep.add_violation("correspondence", "case %s: %s" % (c["id"], c["_disagree"]), replay_fn(c), failing_input=bool(probs))


def decode_written(f):
    try:
        return mcapspec.decode(f["file"], cw.plain_lookup(f["g"]), skip_magic=f["o"]["skipmagic"])
    except mcapspec.SpecError:
        return None


@prop("C02")
def check_c02(rep, tier, seed, wd, replay):
    nfiles = 300 if tier == "quick" else 3000
    files, crashed = cl.written_files(seed * 1000 + 2, nfiles, "c02f", wd, nmax=25, force={"skipmagic": False})
    files = cl.corner_written_files("c02c_", wd) + files
    cases = []
    for f in files:
        d = decode_written(f)
        if d is None:
            continue
        f["d"] = d
        ops = [["info"], ["messages"]]
        for a in d["attachments"]:
            ops.append(["getatt", str(a["offset"])])
            ops.append(["getatt", str(a["offset"]), "rev"])       # ParsedCRC before ComputedCRC
        for m in d["metadata"]:
            ops.append(["getmd", str(m["offset"])])
        base = {"file": f["file"], "base": f}
        cases.append(dict(base, id=f["id"] + "_idx", ropts=["mdcb"], ops=ops))
        cases.append(dict(base, id=f["id"] + "_scan", ropts=["index:0", "mdcb"], ops=[["messages"]]))
        cases.append(dict(base, id=f["id"] + "_log", ropts=["order:log"], ops=[["messages", "range"]]))      # through mcap.Range
        cases.append(dict(base, id=f["id"] + "_rev", ropts=["order:rev", "mdcb"], ops=[["messages", "into"]]))
    go, model, nd = read_corr(rep, cases, wd, "c02")
    st = {"indexed_reads": 0, "fallback_scans": 0, "errors": 0, "random_access": 0, "md_callbacks": 0}
    for c in cases:
        g = go.get(c["id"])
        probs = []
        f = c["base"]
        scan = go.get(f["id"] + "_scan")
        if g and scan and scan["ops"] and g["ops"]:
            sm = scan["ops"][0]
            if any(o["panic"] for o in g["ops"]):
                probs.append("reader crashed: %s" % [o["panic"] for o in g["ops"] if o["panic"]])
            for o in g["ops"]:
                h = o["head"] or ""
                if h.startswith("messages ok"):
                    if h.endswith("indexed"):
                        st["indexed_reads"] += 1
                    else:
                        st["fallback_scans"] += 1
                    if o["end"] == "err:eof":
                        if c["id"].endswith(("_idx", "_scan")) and o["msgs"] != sm["msgs"]:
                            probs.append("%s read in file order returned %d messages, sequential scan %d (sequences differ)" % (h[12:], len(o["msgs"]), len(sm["msgs"])))
                        if c["id"].endswith(("_log", "_rev")) and sorted(o["msgs"]) != sorted(sm["msgs"]):
                            probs.append("ordered read returned a different multiset of messages than the scan (%d vs %d)" % (len(o["msgs"]), len(sm["msgs"])))
                    else:
                        st["errors"] += 1
                        full = not (f["o"].get("skiprsh") or f["o"].get("skiprch") or f["o"].get("skipci"))
                        if sm["end"] == "err:eof" and full and not f["o"].get("custom") and not c["id"].endswith("_scan"):
                            # a file whose summary keeps chunk indexes together with the repeated schema and channel records
                            # (the precondition for indexed reading), which the sequential scan reads to its end: the
                            # index-based read has to find the same content, not fail half way. Without those records an error
                            # is a permitted outcome; custom-compressed chunks are excepted (the Reader has no decompressor hook)
                            probs.append("%s read of a writer-produced file failed with %s after %d messages and %d metadata callbacks; the sequential scan of the same file returns %d messages without error"
                                         % (h[12:], o["end"], len(o["msgs"]), len(o["mds"]), len(sm["msgs"])))
                    # metadata callback: scan delivers all; indexed delivers the indexed ones
                    if "mdcb" in c["ropts"] and o["end"] == "err:eof":
                        want_all = ["md %s %s" % (cm.hx(m["name"]), ",".join("%s:%s" % (k.hex(), v.hex()) for k, v in sorted(m["metadata"])) or "-") for m in f["d"]["metadata"]]
                        st["md_callbacks"] += len(o["mds"])
                        if h.endswith("scan") and o["mds"] != want_all:
                            probs.append("metadata callback during a sequential read received %d records, file has %d" % (len(o["mds"]), len(want_all)))
                        if h.endswith("indexed"):
                            idx_offs = [x["offset"] for x in f["d"]["summary"]["metadata_indexes"]]
                            want = [w for w, m in zip(want_all, f["d"]["metadata"]) if m["offset"] in idx_offs]
                            if o["mds"] != want:
                                probs.append("metadata callback during an indexed read received %d records, %d are indexed" % (len(o["mds"]), len(want)))
                elif h.startswith("messages err"):
                    st["errors"] += 1
                elif h.startswith("getatt"):
                    st["random_access"] += 1
                    off = int(c["ops"][g["ops"].index(o)][1])
                    a = [x for x in f["d"]["attachments"] if x["offset"] == off][0]
                    want = "getatt ok %d %d %s %s %d %s ok %d %d" % (a["log_time"], a["create_time"], cm.hx(a["name"]), cm.hx(a["media_type"]),
                                                                    len(a["data"]), cm.hx(a["data"]), a["crc"], a["crc"])
                    if h != want:
                        probs.append("attachment at %d retrieved as %s, written %s" % (off, h[:100], want[:100]))
                elif h.startswith("getmd"):
                    st["random_access"] += 1
                    off = int(c["ops"][g["ops"].index(o)][1])
                    m = [x for x in f["d"]["metadata"] if x["offset"] == off][0]
                    want = "getmd ok %s %s" % (cm.hx(m["name"]), ",".join("%s:%s" % (k.hex(), v.hex()) for k, v in sorted(m["metadata"])) or "-")
                    if h != want:
                        probs.append("metadata at %d retrieved as %s, written %s" % (off, h[:100], want[:100]))
        report_case(rep, c, probs, cr.read_replay)
    distinct = len(set((tuple(sorted(f["o"].items())), len(f["g"]["chunks"]) > 1) for f in files))
    cov = summarize(rep, len(cases), distinct,
                    "files written by the real writer under random configurations (all Skip* combinations, none/zstd/lz4/xor); per file: Info, Messages default (index), Messages UsingIndex(false), LogTime and Reverse order, every attachment and metadata record fetched by its offset, metadata callbacks; compared with the Reader model; oracle: indexed file-order sequence == scan sequence, ordered reads are permutations of the scan, never silently fewer messages, random-access content == decoded content, callback lists; distinct = distinct writer configurations",
                    [cr.read_replay(c)[:5] for c in cases[:2]], dict(st, files=len(files), disagreements=nd))
    return cov, ["xor-compressed chunks are unreadable through the index (no custom decompressor hook in Reader): error expected"]


# ------------------------------------------------------------------ iterator family (C03, C04, C20)
import mcapenc  # noqa: E402

TOPICS = [b"/a", b"/b", b"/a"]      # channels 1 and 3 share a topic


def arrangement(r, nchunks, maxmsgs, ts_domain, nch=3, overlap=None, empty_channel=True):
    """A layout: schemas+channels at top level, then chunks of messages (unique sequence numbers)."""
    items = [("schema", {"id": 1, "name": b"s", "encoding": b"e", "data": b"d"})]
    for i in range(nch):
        items.append(("channel", {"id": i + 1, "schema_id": 1 if i % 2 == 0 else 0, "topic": TOPICS[i % 3], "message_encoding": b"m", "metadata": []}))
    if empty_channel:
        items.append(("channel", {"id": 9, "schema_id": 0, "topic": b"/empty", "message_encoding": b"", "metadata": []}))
    seq = 0
    for k in range(nchunks):
        inner = []
        n = r.randint(0, maxmsgs)
        if overlap is not None:
            lo, hi = overlap[k]
            n = max(n, 2)
            tss = [lo, hi] + [r.randint(lo, hi) for _ in range(n - 2)]
            r.shuffle(tss)
        else:
            tss = [r.choice(ts_domain) for _ in range(n)]
        for t in tss:
            inner.append(("message", {"channel_id": r.randint(1, nch), "sequence": seq, "log_time": t, "publish_time": seq, "data": bytes([seq % 251])}))
            seq += 1
        if inner or r.random() < 0.3:
            items.append(("chunk", inner, {}))
        if r.random() < 0.15:
            items.append(("metadata", {"name": b"md%d" % k, "metadata": [(b"k", b"v")]}))
    groups = ["schema", "channel", "statistics", "chunk_index", "attachment_index", "metadata_index"]
    if r.random() < 0.5:
        r.shuffle(groups)
    if r.random() < 0.2:
        groups.remove("statistics")
    return {"header": {"profile": b"", "library": b"ref"}, "items": items, "message_index": r.random() < 0.8, "groups": groups}


def parse_msg_line(l):
    f = l.split(" ")
    i = f.index("message")
    ci = f.index("channel")
    return {"chan": int(f[i + 1]), "seq": int(f[i + 2]), "log": int(f[i + 3]), "topic": f[ci + 3], "line": l}


def max_overlap(ranges):
    """largest number of closed intervals sharing a common point"""
    best = 0
    for lo, hi in ranges:
        for p in (lo, hi):
            best = max(best, sum(1 for a, b in ranges if a <= p <= b))
    return best


@prop("C03")
def check_c03(rep, tier, seed, wd, replay):
    import random
    r = random.Random(seed * 1000 + 3)
    nfiles = 320 if tier == "quick" else 4000
    domains = [[0, 1, 2, 3], [5, 5, 5, 7], [0, 2**64 - 1, 2**64 - 2, 2**63], list(range(20)), [0, 10, 10**6, 2**40, 2**64 - 1]]
    files = []
    for i in range(nfiles):
        big = r.random() < 0.2
        L = arrangement(r, r.randint(1, 30 if big else 6), r.randint(1, 12 if big else 4), r.choice(domains))
        data, info = mcapenc.build(L)
        files.append({"id": "c03a%d" % i, "file": data, "L": L})
    # files from the real writer: descending stamps, tiny chunks
    wfiles, crashed = cl.written_files(seed * 1000 + 3, 40 if tier == "quick" else 600, "c03w", wd, nmax=30,
                                       force={"skipmagic": False, "skiprch": False, "skiprsh": False, "skipci": False, "chunked": True, "custom": False, "comp": "zstd"})
    for f in wfiles:
        files.append(f)
    cases = []
    for f in files:
        for suf, ro in (("log", ["order:log"]), ("rev", ["order:rev"]), ("file", []), ("scan", ["index:0"])):
            c = {"id": f["id"] + "_" + suf, "file": f["file"], "ropts": ro, "ops": [["messages"], ["messages", "into"], ["messages", "range"]], "base": f, "order": suf}
            cases.append(c)
    go, model, nd = read_corr(rep, cases, wd, "c03")
    st = {"ordered_reads": 0, "messages": 0, "ties_checked": 0}
    for c in cases:
        g = go.get(c["id"])
        probs = []
        f = c["base"]
        if g and g["ops"] and c["order"] in ("log", "rev"):
            if "d" not in f:
                try:
                    f["d"] = mcapspec.decode(f["file"], cw.plain_lookup(f["g"]) if "g" in f else None)
                except mcapspec.SpecError as e:
                    f["d"] = None
            o = g["ops"][0]
            if o["panic"]:
                probs.append("reader crashed: %s" % o["panic"])
            elif (o["head"] or "").startswith("messages ok") and o["end"] == "err:eof" and f["d"]:
                st["ordered_reads"] += 1
                ms = [parse_msg_line(l) for l in o["msgs"]]
                st["messages"] += len(ms)
                ts = [m["log"] for m in ms]
                if c["order"] == "log" and any(ts[i] > ts[i + 1] for i in range(len(ts) - 1)):
                    probs.append("log-time order read is not non-decreasing")
                if c["order"] == "rev" and any(ts[i] < ts[i + 1] for i in range(len(ts) - 1)):
                    probs.append("reverse log-time order read is not non-increasing")
                want = sorted((m["channel_id"], m["sequence"], m["log_time"]) for m in f["d"]["messages"])
                got = sorted((m["chan"], m["seq"], m["log"]) for m in ms)
                if (o["head"] or "").endswith("indexed") and want != got:
                    probs.append("time-ordered read returned %d messages, file holds %d (not each exactly once)" % (len(got), len(want)))
                # stability inside a chunk: equal log time keeps file order (reverse when reading in reverse)
                pos = {}
                for idx, m in enumerate(f["d"]["messages"] if "L" in f else []):   # unique sequence numbers only in encoder files
                    if m["where"][0] == "chunk":
                        pos[(m["channel_id"], m["sequence"], m["log_time"], m["data"])] = (m["where"][1], m["where"][2])
                last = {}
                for m in ms:
                    key = None
                    for k2, v in pos.items():
                        if k2[0] == m["chan"] and k2[1] == m["seq"] and k2[2] == m["log"]:
                            key = v
                            break
                    if key is None:
                        continue
                    ck = (key[0], m["log"])
                    if ck in last:
                        st["ties_checked"] += 1
                        if c["order"] == "log" and key[1] < last[ck]:
                            probs.append("messages of one chunk with equal log time %d not in file order" % m["log"])
                        if c["order"] == "rev" and key[1] > last[ck]:
                            probs.append("messages of one chunk with equal log time %d not in reverse file order (reverse read)" % m["log"])
                    last[ck] = key[1]
                # repeatability
                if len(g["ops"]) > 1 and g["ops"][1]["msgs"] != o["msgs"]:
                    probs.append("repeating the read gave a different sequence")
        report_case(rep, c, probs[:3], cr.read_replay)
    cov = summarize(rep, len(cases), len(files),
                    "chunk arrangements rendered by the reference encoder (1-30 chunks, 0-12 messages each, timestamps from small tie-heavy domains and from {0, 2^63, 2^64-2, 2^64-1}; overlapping, nested, backwards ranges; empty chunks) plus files from the real writer with tiny chunks; read in LogTime, Reverse, file order (indexed) and by scan, each twice (Next and NextInto); compared with the iterator model message by message; oracle: sortedness, each message exactly once, in-chunk tie order, repeatability; distinct = distinct files",
                    [cr.read_replay(c)[:5] for c in cases[:2]], dict(st, files=len(files), disagreements=nd))
    return cov, []


def window_variants(s, e):
    v = [("nanos", ["afternanos:%d" % s, "beforenanos:%d" % e]), ("nanos_rev", ["beforenanos:%d" % e, "afternanos:%d" % s])]
    if 0 < e < 2**63 and s < 2**63:
        v += [("i64", ["after:%d" % s, "before:%d" % e]), ("i64_rev", ["before:%d" % e, "after:%d" % s])]
    return v


@prop("C04")
def check_c04(rep, tier, seed, wd, replay):
    import random
    r = random.Random(seed * 1000 + 4)
    nfiles = 110 if tier == "quick" else 800
    domains = [[0, 1, 2, 3], [0, 2**64 - 1, 2**64 - 2, 5], list(range(0, 40, 3)), [0, 10, 10**6, 2**40, 2**62]]
    files = []
    for i in range(nfiles):
        L = arrangement(r, r.randint(1, 8), r.randint(1, 5), r.choice(domains))
        data, info = mcapenc.build(L)
        files.append({"id": "c04a%d" % i, "file": data, "L": L})
    wfiles, crashed = cl.written_files(seed * 1000 + 4, 12 if tier == "quick" else 300, "c04w", wd, nmax=25, force={"skipmagic": False})
    files += wfiles
    cases = []
    for f in files:
        try:
            f["d"] = mcapspec.decode(f["file"], cw.plain_lookup(f["g"]) if "g" in f else None)
        except mcapspec.SpecError:
            continue
        d = f["d"]
        times = sorted(set([m["log_time"] for m in d["messages"]] + [c["start"] for c in d["chunks"]] + [c["end"] for c in d["chunks"]] + [0, 2**64 - 1]))
        topics_all = sorted(set(c["topic"] for c in d["channels"].values()))
        cases.append({"id": f["id"] + "_all_idx", "file": f["file"], "ropts": [], "ops": [["messages"]], "base": f, "win": None, "topics": None, "order": "file"})
        cases.append({"id": f["id"] + "_all_scan", "file": f["file"], "ropts": ["index:0"], "ops": [["messages"]], "base": f, "win": None, "topics": None, "order": "scan"})
        nw = 5 if tier == "quick" else 12
        for wi in range(nw):
            s = r.choice(times)
            e = r.choice([t for t in times if t >= s] + [s, min(2**64 - 1, s + 1)])
            if r.random() < 0.25:
                s, e = (r.choice(times) + r.choice([-1, 1])) % 2**64, e
                if s > e:
                    s, e = e, s
            tsel = r.choice([None, None, [b"/nonexistent"], topics_all[:1], topics_all, [b"/empty"]])
            for vname, wopts in window_variants(s, e):
                for order, oopts in (("file", []), ("scan", ["index:0"]), ("log", ["order:log"]), ("rev", ["order:rev"])):
                    if r.random() < (0.45 if tier == "quick" else 1.0):
                        ro = list(wopts) + (["topics:" + ",".join(t.hex() for t in tsel)] if tsel is not None else []) + oopts
                        cases.append({"id": "%s_w%d_%s_%s" % (f["id"], wi, vname, order), "file": f["file"], "ropts": ro, "ops": [["messages"]],
                                      "base": f, "win": (s, e), "topics": tsel, "order": order, "variant": vname})
        # the int64 spellings on their own (a lower bound alone, an upper bound alone)
        t0 = r.choice([t for t in times if 0 < t < 2**63] or [5])
        cases.append({"id": f["id"] + "_after_only", "file": f["file"], "ropts": ["after:%d" % t0], "ops": [["messages"]], "base": f, "win": (t0, None), "topics": None, "order": "file"})
        cases.append({"id": f["id"] + "_before_only", "file": f["file"], "ropts": ["before:%d" % t0], "ops": [["messages"]], "base": f, "win": (0, t0), "topics": None, "order": "file"})
        cases.append({"id": f["id"] + "_afternanos_only", "file": f["file"], "ropts": ["afternanos:%d" % t0], "ops": [["messages"]], "base": f, "win": (t0, None), "topics": None, "order": "file"})
        if len(cases) < 400 and d["messages"]:
            # known finding F4d: the deprecated int64 spelling cannot express the empty window [0,0)
            cases.append({"id": f["id"] + "_before_zero", "file": f["file"], "ropts": ["after:0", "before:0"], "ops": [["messages"]], "base": f, "win": (0, 0), "topics": None,
                          "order": "file", "_key": "F4d-before-zero"})
    go, model, nd = read_corr(rep, cases, wd, "c04")
    st = {"window_reads": 0, "spelling_groups": 0, "empty_results": 0, "nonempty_results": 0}
    for c in cases:
        g = go.get(c["id"])
        probs = []
        f = c["base"]
        if g and g["ops"]:
            o = g["ops"][0]
            h = o["head"] or ""
            if o["panic"]:
                probs.append("reader crashed: %s" % o["panic"])
            elif h.startswith("messages err"):
                if c["win"] is None or c["win"][1] is None or c["win"][0] <= c["win"][1]:
                    if not (h.endswith("err:other") and c["order"] in ("log", "rev") and False):
                        scan_ok = True
                        # an ordered read of a file without usable index may legitimately fail
                        allidx = go.get(f["id"] + "_all_idx")
                        indexed_file = allidx and allidx["ops"] and (allidx["ops"][0]["head"] or "").endswith("indexed")
                        if c["order"] in ("file", "scan") or indexed_file:
                            probs.append("a legal window/topic selection (%s) was rejected: %s" % (" ".join(c["ropts"]), h))
            elif h.startswith("messages ok") and o["end"] == "err:eof":
                st["window_reads"] += 1
                d = f["d"]
                s, e = c["win"] if c["win"] else (0, None)
                chan_topic = {cid: ch["topic"] for cid, ch in d["channels"].items()}
                exp = [m for m in d["messages"] if (c["topics"] is None or chan_topic.get(m["channel_id"]) in c["topics"] or (c["topics"] == []))
                       and m["log_time"] >= s and (e is None or m["log_time"] < e)]
                got = [parse_msg_line(l) for l in o["msgs"]]
                gk = [(m["chan"], m["seq"], m["log"]) for m in got]
                ek = [(m["channel_id"], m["sequence"], m["log_time"]) for m in exp]
                if not ek:
                    st["empty_results"] += 1
                else:
                    st["nonempty_results"] += 1
                if c["order"] in ("file", "scan") and h.endswith("scan") or c["order"] == "scan":
                    if gk != ek:
                        probs.append("selection %s returned %d messages, exactly matching are %d (sequence differs)" % (" ".join(c["ropts"]), len(gk), len(ek)))
                elif sorted(gk) != sorted(ek):
                    missing = len(set(ek) - set(gk)); extra = len(set(gk) - set(ek))
                    probs.append("selection %s returned %d messages, exactly matching are %d (%d missing, %d extra)" % (" ".join(c["ropts"]), len(gk), len(ek), missing, extra))
        report_case(rep, c, probs[:2], cr.read_replay)
    cov = summarize(rep, len(cases), len(set((c["base"]["id"], c["win"], tuple(c["topics"]) if c["topics"] is not None else None, c["order"]) for c in cases)),
                    "reference-encoder arrangements and real-writer files; windows with boundaries at message times, chunk start/end times, 0, 2^64-1, off-by-one, start=end; topic subsets: none, unknown, one shared by two channels, all, a channel without messages; each window spelled AfterNanos/BeforeNanos and After/Before in both argument orders; indexed file order, scan, LogTime, Reverse; compared with the model; oracle: result == filter(start<=t<end, topic in set) of the decoded file",
                    [cr.read_replay(c)[:5] for c in cases[2:4]], dict(st, files=len(files), disagreements=nd))
    return cov, []


@prop("C20")
def check_c20(rep, tier, seed, wd, replay):
    import random
    r = random.Random(seed * 1000 + 20)
    nfiles = 200 if tier == "quick" else 600
    nbig = 0 if tier == "quick" else 24          # files of up to 1000 chunks: implementation + oracle only (the list-based model is quadratic)
    files = []
    for i in range(nfiles + nbig):
        depth = r.randint(1, 8)
        nchunks = r.randint(10, 60 if tier == "quick" else 150) if i < nfiles else r.randint(400, 1000)
        # ranges with controlled overlap depth: `depth` interleaved lanes of disjoint ranges
        ranges = []
        lane_end = [0] * depth
        t = 10
        for k in range(nchunks):
            lane = k % depth
            lo = max(lane_end[lane] + 1, t + r.randint(0, 5))
            hi = lo + r.randint(0, 40) * depth
            lane_end[lane] = hi
            ranges.append((lo, hi))
            t = lo
        L = arrangement(r, nchunks, 4, None, overlap=ranges, empty_channel=False)
        data, info = mcapenc.build(L)
        rs = [(ci["start"], ci["end"]) for ci in info["chunk_indexes"]]
        files.append({"id": "c20a%d" % i, "file": data, "ranges": rs, "maxov": max_overlap(rs), "depth": depth, "big": i >= nfiles})
    cases = []
    for f in files:
        for suf, ro in (("log", ["order:log"]), ("rev", ["order:rev"]), ("file", []), ("logf", ["order:log", "topics:" + b"/a".hex()]),
                        ("logw", ["order:log", "afternanos:%d" % (f["ranges"][len(f["ranges"]) // 3][0])])):
            cases.append({"id": f["id"] + "_" + suf, "file": f["file"], "ropts": ro, "ops": [["messages"]], "base": f, "order": suf})
    go, model, nd = read_corr(rep, [c for c in cases if not c["base"]["big"]], wd, "c20")
    bigc = [c for c in cases if c["base"]["big"]]
    if bigc:
        braw, bcr = cm.run_sharded(os.path.join(cm.BUILD, "impl"), "read", [(c["id"], cr.read_lines(c)) for c in bigc], wd, "c20big", timeout=3000)
        for cmd, rc, err in bcr:
            rep.add_violation("executor-crash", "%s exited %s: %s" % (cmd, rc, err), [], failing_input=False)
        for c in bigc:
            go[c["id"]] = cr.parse_read_obs(braw.get(c["id"], []))
    st = {"reads": 0, "max_slots_seen": 0, "max_overlap_seen": 0, "big_files_oracle_only": len(bigc) // 5}
    for c in cases:
        g = go.get(c["id"])
        probs = []
        f = c["base"]
        if g and g["ops"]:
            o = g["ops"][0]
            if o["panic"]:
                probs.append("reader crashed: %s" % o["panic"])
            elif o["slots"]:
                st["reads"] += 1
                ns, live = [int(x) for x in o["slots"].split(" ")]
                st["max_slots_seen"] = max(st["max_slots_seen"], ns)
                st["max_overlap_seen"] = max(st["max_overlap_seen"], f["maxov"])
                bound = 1 if c["order"] == "file" else max(1, f["maxov"])
                if ns > bound:
                    probs.append("%s read kept %d decompressed chunks; at most %d chunk time ranges overlap" % (c["order"], ns, bound))
        report_case(rep, c, probs, cr.read_replay)
    # memory that does not follow from the chunk-slot bound: attachments of any size through writer, lexer and
    # GetAttachmentReader, and the live heap of a sequential read of many chunks (runtime measurements, no model)
    sizes = [1024, 1 << 20, 64 << 20] if tier == "quick" else [1024, 1 << 20, 64 << 20, 256 << 20]
    alines = []
    for sz in sizes:
        for chunked in (0, 1):
            for crc in (0, 1):
                alines.append("att mode=write size=%d chunked=%d crc=%d" % (sz, chunked, crc))
        for crc in (0, 1):
            alines.append("att mode=lexcb size=%d crc=%d" % (sz, crc))
        alines += ["att mode=lexskip size=%d crc=0" % sz, "att mode=lexskipseek size=%d crc=1" % sz, "att mode=getatt size=%d" % sz]
    chunkbytes = 512 << 10
    nch = 48 if tier == "quick" else 400
    slines = []
    for comp in ("-", "zstd", "lz4"):
        for validate in (0, 1):
            slines.append("seq mode=lex comp=%s chunks=%d chunkbytes=%d validate=%d" % (comp, nch, chunkbytes, validate))
        slines.append("seq mode=scan comp=%s chunks=%d chunkbytes=%d" % (comp, nch, chunkbytes))
    mcases = [("c20_attmem_%d" % i, [l]) for i, l in enumerate(alines)] + [("c20_seqmem_%d" % i, [l]) for i, l in enumerate(slines)]
    mraw, mcr = cm.run_sharded(os.path.join(cm.BUILD, "impl"), "attmem", mcases, wd, "c20mem", nshards=4, timeout=1800)
    for cmd, rc, err in mcr:
        rep.add_violation("executor-crash", "%s exited %s: %s" % (cmd, rc, err), [], failing_input=False)
    st["attachment_runs"] = st["sequential_runs"] = 0
    st["max_attachment_alloc"] = st["max_sequential_growth"] = 0
    for cid, lines in mcases:
        outl = [l for l in mraw.get(cid, []) if l.startswith(("attmem ", "seqmem "))]
        rp = ["# mode attmem", "case " + cid] + lines + ["end"]
        if not outl:
            rep.add_violation("missing-output", "case %s: no measurement" % cid, rp, failing_input=False)
            continue
        o = dict(x.split("=", 1) for x in outl[0].split(" ")[1:])
        if outl[0].startswith("attmem"):
            st["attachment_runs"] += 1
            sz = int(o["size"])
            st["max_attachment_alloc"] = max(st["max_attachment_alloc"], int(o["alloc"]))
            if o["status"] != "ok" or ("data" in o and o["data"] not in ("-1", str(sz))) or o.get("crc") == "false":
                rep.add_violation("oracle", "case %s: a %d-byte attachment did not stream through correctly: %s" % (cid, sz, outl[0]), rp)
            elif int(o["alloc"]) > (1 << 20) or int(o["peakgrowth"]) > (1 << 20):
                rep.add_violation("oracle", "case %s: streaming a %d-byte attachment (%s) allocated %s bytes (heap growth %s): not constant memory"
                                  % (cid, sz, o["mode"], o["alloc"], o["peakgrowth"]), rp)
        else:
            st["sequential_runs"] += 1
            st["max_sequential_growth"] = max(st["max_sequential_growth"], int(o["peakgrowth"]))
            cb = int(o["chunkbytes"])
            if o["status"] != "ok" or int(o["messages"]) != 17 * int(o["chunks"]):
                rep.add_violation("oracle", "case %s: sequential read failed: %s" % (cid, outl[0]), rp)
            elif int(o["peakgrowth"]) > (16 << 20) + 3 * cb or int(o["lexbuf"]) > 2 * cb + (64 << 10):
                rep.add_violation("oracle", "case %s: a sequential %s read of %s chunks of %d bytes kept %s bytes live (lexer buffer %s): more than one chunk or record"
                                  % (cid, o["mode"], o["chunks"], cb, o["peakgrowth"], o["lexbuf"]), rp)
    cov = summarize(rep, len(cases) + len(mcases), len(files),
                    "files of 10-60 (thorough: -150, plus 24 files of 400-1000 chunks decided by the oracle alone) chunks with overlap depth 1..8 built by the reference encoder; read in LogTime, Reverse and file order, with and without topic/time filters; the verif hook reports slots allocated and slots with unread messages after every Next; compared with the model's slot trace (maxima); oracle: slots <= max(1, max overlap of chunk ranges), 1 in file order; attachments of 1 KiB..64 MiB (thorough 256 MiB) generated on the fly through Writer.WriteAttachment (chunked/unchunked, CRC on/off), the lexer (callback reading the data, no callback on seekable and non-seekable sources) and GetAttachmentReader with cumulative allocation and heap growth <= 1 MiB; sequential lexer/scan reads of 48 (400) chunks with live heap growth (GC forced at every sample) <= 16 MiB + 3 chunks",
                    [cr.read_replay(c)[:5] for c in cases[:2]], dict(st, files=len(files), disagreements=nd))
    return cov, ["attachment streaming memory and real buffer sizes are measured at run time, not proved (partial)"]


# ------------------------------------------------------------------ C10: hostile input
import chk_hostile as ch  # noqa: E402


def impl_path():
    return os.path.join(cm.BUILD, "impl")


@prop("C10")
def check_c10(rep, tier, seed, wd, replay):
    import random
    import struct
    r = random.Random(seed * 1000 + 10)
    nfiles = 10 if tier == "quick" else 120
    files, crashed = cl.written_files(seed * 1000 + 10, nfiles * 3, "c10f", wd, nmax=10, force={"skipmagic": False})
    files = [f for f in files if len(f["file"]) <= 1500][:nfiles]
    lexcases, readcases, parsecases = [], [], []
    budget = 700 if tier == "quick" else 20000
    nmut = 0
    lo_variants = [{"validate": 0, "cb": "full"}, {"validate": 1, "cb": "none"}, {"validate": 1, "emitinvalid": 1, "cb": "full", "maxrecord": 65536, "maxchunk": 65536},
                   {"emitchunks": 1, "cb": "partial:3"}]
    for f in files:
        muts = list(ch.mutations(r, f["file"], per_field=2 if tier == "quick" else 6, extra=10 if tier == "quick" else 40))
        r.shuffle(muts)
        for desc, data in muts[: budget // max(1, len(files))]:
            nmut += 1
            cid = "%s_%d" % (f["id"], nmut)
            lo = dict(r.choice(lo_variants))
            lexcases.append({"id": cid + "_lex", "file": data, "lopts": lo, "src": {"seek": r.randint(0, 1)}, "base": f, "desc": desc, "limited": "maxrecord" in lo})
            ops = [["info"], ["messages"]]
            if r.random() < 0.5:
                ops.append(["getmd", str(r.choice([0, 8, len(data) // 2, len(data), 2**63, 2**64 - 1]))])
                ops.append(["getatt", str(r.choice([0, 8, len(data) // 2, len(data), 2**63 - 5, 2**64 - 9]))])
            ro = r.choice([[], ["index:0"], ["order:log"], ["order:rev"], ["mdcb"], ["order:log", "mdcb", "topics:2f61"]])
            for oi, op in enumerate(ops):
                readcases.append({"id": "%s_read%d" % (cid, oi), "file": data, "ropts": ro, "ops": [op], "base": f, "desc": desc})
            # every record body of the mutated file through its Parse function
            pl = []
            for off, op, n in ch.records(data[8:], 8)[:40]:
                if op in ch.PARSE_KIND:
                    pl.append("parse %s %s" % (ch.PARSE_KIND[op], cm.hx(data[off + 9:off + 9 + n])))
                    if r.random() < 0.3 and n > 0:
                        pl.append("parse %s %s" % (ch.PARSE_KIND[op], cm.hx(data[off + 9:off + 9 + r.randrange(n)])))
            for _ in range(3):
                pl.append("parse %s %s" % (r.choice(list(ch.PARSE_KIND.values())), cm.hx(bytes(r.randrange(256) for _ in range(r.randint(0, 60))))))
            parsecases.append({"id": cid + "_parse", "lines": pl, "desc": desc})
    # a chunk record nested inside a chunk of the SAME compression, the outer chunk damaged in the ways the validating branch
    # rejects (wrong CRC, understated / overstated size): after the error or the invalid-chunk token the lexer must not start
    # decoding the inner chunk with the decoder it is still reading from
    import zlib
    msg = struct.pack("<BQHIQQ", 5, 22 + 3, 1, 7, 1, 1) + b"abc"
    ctx = files[0] if files else None
    comps = ["", "zstd", "lz4"]
    if ctx is not None:
        inner_plain = msg + msg
        q1 = [("ni%d" % k, ["compress %s %s" % (comp or "-", cm.hx(inner_plain))]) for k, comp in enumerate(comps)]
        r1, _ = cm.run_sharded(impl_path(), "compress", q1, wd, "c10comp1", nshards=1)
        outer_plains = {}
        for k, comp in enumerate(comps):
            line = next((l for l in r1.get("ni%d" % k, []) if l.startswith("compressed ")), None)
            if not line:
                continue
            pay = cm.unhx(line.split(" ")[2]) if len(line.split(" ")) > 2 else b""
            ib = struct.pack("<QQQI", 1, 1, len(inner_plain), zlib.crc32(inner_plain)) + struct.pack("<I", len(comp)) + comp.encode() + struct.pack("<Q", len(pay)) + pay
            inner = bytes([6]) + struct.pack("<Q", len(ib)) + ib
            outer_plains[comp] = [("first", inner + msg, 0), ("second", msg + inner + msg, len(msg))]
        q2 = [("no_%s_%s" % (comp or "none", nm), ["compress %s %s" % (comp or "-", cm.hx(pl))]) for comp, lst in outer_plains.items() for nm, pl, _ in lst]
        r2, _ = cm.run_sharded(impl_path(), "compress", q2, wd, "c10comp2", nshards=1)
        # where the chunk goes: right after the header record of the context file
        hdr_end = 8 + 9 + struct.unpack_from("<Q", ctx["file"], 9)[0]
        for comp, lst in outer_plains.items():
            for nm, plain, aligned in lst:
                line = next((l for l in r2.get("no_%s_%s" % (comp or "none", nm), []) if l.startswith("compressed ")), None)
                if not line:
                    continue
                payload = cm.unhx(line.split(" ")[2]) if len(line.split(" ")) > 2 else b""
                good = zlib.crc32(plain)
                variants = [(len(plain), 1), (len(plain), 0), (len(plain), good), (max(0, len(plain) - 5), good), (len(plain) + 9, 1), (len(plain) + 70000, 0),
                            (0, 1), (0, 0xdeadbeef), (aligned, 1), (aligned, good), (1 << 31, good)]
                for vi, (usize, crc) in enumerate(variants):
                    body = struct.pack("<QQQI", 0, 9, usize, crc) + struct.pack("<I", len(comp)) + comp.encode() + struct.pack("<Q", len(payload)) + payload
                    data = ctx["file"][:hdr_end] + bytes([6]) + struct.pack("<Q", len(body)) + body + ctx["file"][hdr_end:]
                    for li, lo in enumerate(lo_variants[:3]):
                        nmut += 1
                        lexcases.append({"id": "nest_%s_%s_%d_%d_lex" % (comp or "none", nm, vi, li), "file": data, "lopts": dict(lo), "src": {"seek": (vi + li) % 2}, "base": ctx,
                                         "desc": "%s chunk nested (%s) in a %s chunk usize=%d crc=%d" % (comp or "none", nm, comp or "none", usize, crc), "limited": "maxrecord" in lo})
                    readcases.append({"id": "nest_%s_%s_%d_read" % (comp or "none", nm, vi), "file": data, "ropts": ["index:0"], "ops": [["messages"]], "base": ctx,
                                      "desc": "nested chunk usize=%d crc=%d" % (usize, crc)})
    # hand-made inputs for the sites the lexer/reader guard (kept as a corpus; run first)
    corpus_dir = os.path.join(cm.VERIF, "corpus", "C10")
    if os.path.isdir(corpus_dir):
        for name in sorted(os.listdir(corpus_dir)):
            data = bytes.fromhex(open(os.path.join(corpus_dir, name)).read().strip())
            for vi, lo in enumerate(lo_variants):
                lexcases.insert(0, {"id": "corpus_%s_lex%d" % (name, vi), "file": data, "lopts": dict(lo), "src": {"seek": 1}, "desc": name, "limited": "maxrecord" in lo})
            for vi, ro in enumerate([[], ["index:0"], ["order:log", "mdcb"]]):
                for oi, op in enumerate([["info"], ["messages"], ["getmd", "8"], ["getatt", "8"]]):
                    readcases.insert(0, {"id": "corpus_%s_read%d_%d" % (name, vi, oi), "file": data, "ropts": ro, "ops": [op], "desc": name})
    env = dict(os.environ, VERIF_ALLOC="1")
    go_l, model_l, cr1 = cl.run_lex(lexcases, wd, "c10l", isolated=True, go_env=env)
    go_r, model_r, cr2 = cr.run_read(readcases, wd, "c10r", isolated=True, go_env=env)
    go_p, culp = cm.run_isolated(os.path.join(cm.BUILD, "impl"), "parse", [(c["id"], c["lines"]) for c in parsecases], wd, "c10pgo", timeout=60, mem_bytes=16 << 30)
    mod_p, mcr = cm.run_sharded(os.path.join(cm.BUILD, "model"), "parse", [(c["id"], c["lines"]) for c in parsecases], wd, "c10pmodel")
    for cmd, rc, err in cr1 + cr2 + mcr:
        rep.add_violation("executor-crash", "%s exited %s: %s" % (cmd, rc, err), [], failing_input=False)
    st = {"lex_inputs": len(lexcases), "read_inputs": len(readcases), "parse_calls": sum(len(c["lines"]) for c in parsecases),
          "impl_errors": 0, "impl_ok": 0, "max_alloc_limited": 0, "max_alloc": 0, "codec_tolerated": 0}
    outcome_classes = {}
    for c in lexcases:
        g, m = go_l.get(c["id"]), model_l.get(c["id"])
        probs = []
        if g:
            if g["panic"]:
                probs.append("lexer crashed / killed the process: %s" % g["panic"])
            else:
                outcome_classes[g["end"] or g["new"]] = outcome_classes.get(g["end"] or g["new"], 0) + 1
                a = g.get("allocated") or 0
                st["max_alloc"] = max(st["max_alloc"], a)
                if c["limited"]:
                    st["max_alloc_limited"] = max(st["max_alloc_limited"], a)
                    if a > (32 << 20):
                        probs.append("lexer with MaxRecordSize/MaxDecompressedChunkSize=64KiB allocated %d bytes for a %d-byte input" % (a, len(c["file"])))
                elif a > (2 << 31) + (512 << 20):
                    probs.append("lexer allocated %d bytes for a %d-byte input (beyond two maximal buffers)" % (a, len(c["file"])))
        d = cl.diff_lex(g, m)
        if d and not probs and g and m and not g["panic"] and not m["panic"]:
            # damaged compressed payloads: decoder behaviour is an oracle with timing-dependent error reporting
            if (g["new"], m["new"]) == ("ok", "ok") and any(x in c["file"] for x in (b"zstd", b"lz4")):
                st["codec_tolerated"] += 1
                d = None
            elif b"\xff\xff\xff\x7f" in c["file"] and g["end"] == "err:other" and m["end"] == "err:eof":
                # a skip length just below 2^63: bytes.Reader.Seek overflows int64 and reports an error, the model's
                # seekable source has no absolute position and moves past the end (both are error/EOF outcomes)
                st["seek_overflow_tolerated"] = st.get("seek_overflow_tolerated", 0) + 1
                d = None
        for p in probs:
            rep.add_violation("oracle", "case %s (%s): %s" % (c["id"], c["desc"], p), cl.lex_replay(c))
        if d:
            rep.add_violation("correspondence", "case %s (%s): %s" % (c["id"], c["desc"], d), cl.lex_replay(c), failing_input=bool(probs))
    for c in readcases:
        g, m = go_r.get(c["id"]), model_r.get(c["id"])
        probs = []
        if g:
            pan = g["panic"] or next((o["panic"] for o in g["ops"] if o["panic"]), None)
            if pan:
                probs.append("reader crashed / killed the process: %s" % pan)
            a = g.get("allocated") or 0
            st["max_alloc"] = max(st["max_alloc"], a)
            if a > (1 << 31) + (512 << 20):
                probs.append("reader operation allocated %d bytes for a %d-byte input (beyond one maximal buffer)" % (a, len(c["file"])))
        d = cr.diff_read(g, m, compare_slots=False)
        if d and not probs and any(x in c["file"] for x in (b"zstd", b"lz4")) and g and m and not g["panic"] and not m["panic"]:
            st["codec_tolerated"] += 1
            d = None
        elif d and not probs and b"\xff\xff\xff\x7f" in c["file"] and "'err:other'" in d and "'err:eof'" in d:
            st["seek_overflow_tolerated"] = st.get("seek_overflow_tolerated", 0) + 1      # see the lexer loop above
            d = None
        for p in probs:
            rep.add_violation("oracle", "case %s (%s): %s" % (c["id"], c["desc"], p), cr.read_replay(c))
        if d:
            rep.add_violation("correspondence", "case %s (%s): %s" % (c["id"], c["desc"], d), cr.read_replay(c), failing_input=bool(probs))
    for c in parsecases:
        g, m = go_p.get(c["id"]), mod_p.get(c["id"])
        rp = ["case %s" % c["id"]] + c["lines"] + ["end"]
        if c["id"] in culp:
            rep.add_violation("oracle", "case %s: Parse* killed the process: %s" % (c["id"], culp[c["id"]]), rp)
            continue
        if g is None or m is None:
            continue
        gl = [l for l in g if l.startswith("parse ")]
        for i, l in enumerate(gl):
            if l.endswith(" panic"):
                rep.add_violation("oracle", "case %s: %s panicked on %s" % (c["id"], l.split(" ")[1], c["lines"][i][:120]), rp)
            if l.split(" ")[2].startswith("ok"):
                st["impl_ok"] += 1
            else:
                st["impl_errors"] += 1
        if gl != [l for l in m if l.startswith("parse ")]:
            k = next((i for i in range(min(len(gl), len(m))) if gl[i] != m[i]), 0)
            rep.add_violation("correspondence", "case %s: Parse result differs: impl %s | model %s (input %s)" % (c["id"], gl[k][:120] if k < len(gl) else None, m[k][:120] if k < len(m) else None, c["lines"][k][:100] if k < len(c["lines"]) else None), rp, failing_input=False)
    cov = summarize(rep, len(lexcases) + len(readcases) + len(parsecases), nmut,
                    "structured mutations of valid files (every length/offset/size/count field set to 0, 1, +-1, 2^31, 2^32-1, 2^63, 2^64-1, file size; truncation, record splicing, unknown compression, nested chunk, byte noise, random bytes) through NewLexer/Next under 4 option sets, NewReader/Info/Messages in all modes/orders, GetMetadata/GetAttachmentReader at hostile offsets, and every Parse* on every record body; each Go run isolated in a child (16 GiB address space cap, 60 s deadline, allocation accounting via runtime.MemStats); outcome and observables compared with the model; distinct = distinct mutated files",
                    [cl.lex_replay(c)[:4] for c in lexcases[-2:]], dict(st, mutated_files=nmut, outcome_classes=outcome_classes))
    return cov, ["real RSS, wall-clock and stack depth are measured, not proved (partial)", "decoder internals (zstd/lz4) are outside the model"]


# ------------------------------------------------------------------ C01, C11, C12 (content-level)
def tok_parsed(ev):
    """parse a 'tok <op> <hex>' / 'att ...' event line into a comparable record"""
    f = ev.split(" ")
    if f[0] == "tok":
        op = int(f[1])
        body = cm.unhx(f[2])
        try:
            return (op, mcapspec.parse_body(op, body))
        except mcapspec.SpecError as e:
            return (op, "unparsable: %s" % e)
    if f[0] == "att":
        return ("att", {"log_time": int(f[1]), "create_time": int(f[2]), "name": cm.unhx(f[3]), "media_type": cm.unhx(f[4]),
                        "size": int(f[5]), "data": cm.unhx(f[6]), "data_end": f[7], "computed": f[8], "parsed": f[9]})
    return (f[0], None)


def lex_content(events):
    """logical content seen by a lexer run: header, data-section schemas/channels/messages/attachments/metadata"""
    c = {"header": None, "schemas": [], "channels": [], "messages": [], "attachments": [], "metadata": [], "dataend": False}
    for ev in events:
        op, p = tok_parsed(ev)
        if op == 15:
            c["dataend"] = True
        if c["dataend"]:
            continue
        if isinstance(p, str):
            # a record body that does not parse per the specification: keep it visible so that every comparison fails on it
            key = {1: "header", 3: "schemas", 4: "channels", 5: "messages", 12: "metadata"}.get(op)
            if key == "header":
                c["header"] = ("UNPARSABLE", p)
            elif key:
                c[key].append(("UNPARSABLE", op, p))
            continue
        if op == 1:
            c["header"] = (p["profile"], p["library"])
        elif op == 3:
            c["schemas"].append((p["id"], p["name"], p["encoding"], p["data"]))
        elif op == 4:
            c["channels"].append((p["id"], p["schema_id"], p["topic"], p["message_encoding"], tuple(sorted(p["metadata"]))))
        elif op == 5:
            c["messages"].append((p["channel_id"], p["sequence"], p["log_time"], p["publish_time"], p["data"]))
        elif op == "att":
            c["attachments"].append((p["log_time"], p["create_time"], p["name"], p["media_type"], p["data"], p["computed"] == p["parsed"]))
        elif op == 12:
            c["metadata"].append((p["name"], tuple(sorted(p["metadata"]))))
    return c


def expected_lex_content(f, lib):
    o, calls = f["o"], f["calls"]
    exp = gw.expected_content(o, calls, f["g"]["calls"])
    h = exp["header"]
    if o["overridelib"]:
        libs = h[1]
    elif h[1] != b"" and h[1] != lib:
        libs = lib + b"; " + h[1]
    else:
        libs = lib
    return {
        "header": (h[0], libs),
        "schemas": [(c[1], c[2], c[3], c[4]) for c in calls if c[0] == "S"],
        "channels": [(c[1], c[2], c[3], c[4], tuple(sorted(c[5]))) for c in calls if c[0] == "C"],
        "messages": [(c[1], c[2], c[3], c[4], c[5]) for c in calls if c[0] == "M"],
        "attachments": [(c[1], c[2], c[3], c[4], b"".join(c[7]), True) for c in calls if c[0] == "A"],
        "metadata": [(c[1], tuple(sorted(c[2]))) for c in calls if c[0] == "D"],
        "dataend": True,
    }


@prop("C01")
def check_c01(rep, tier, seed, wd, replay):
    nfiles = 450 if tier == "quick" else 5000
    files, crashed = cl.written_files(seed * 1000 + 1, nfiles, "c01f", wd, nmax=25, small=False)
    files = cl.corner_written_files("c01c_", wd) + files
    lib = cm.lib_id()
    lcases, rcases = [], []
    for i, f in enumerate(files):
        lo = {"validate": i % 2, "cb": ("full", "fullrev")[(i // 8) % 2], "acrc": 1, "skipmagic": 1 if f["o"]["skipmagic"] else 0, "reuse": (i // 2) % 2}
        lcases.append({"id": f["id"] + "_lex", "file": f["file"], "lopts": lo, "src": {"seek": (i // 4) % 2}, "base": f})
        if not f["o"]["skipmagic"]:
            rcases.append({"id": f["id"] + "_scan", "file": f["file"], "ropts": ["index:0"], "ops": [["messages"], ["messages", "into"], ["messages", "range"]], "base": f})
    go_l, model_l, nd1 = lex_corr(rep, lcases, wd, "c01l")
    go_r, model_r, nd2 = read_corr(rep, rcases, wd, "c01r")
    st = {"records_compared": 0, "messages_compared": 0, "xor_files": 0}
    for c in lcases:
        g = go_l.get(c["id"])
        probs = []
        f = c["base"]
        if g:
            if g["panic"]:
                probs.append("lexer crashed: %s" % g["panic"])
            elif g["new"] == "ok":
                got = lex_content(g["events"])
                want = expected_lex_content(f, lib)
                for k in ("header", "schemas", "channels", "messages", "attachments", "metadata"):
                    st["records_compared"] += len(want[k]) if isinstance(want[k], list) else 1
                    if got[k] != want[k]:
                        probs.append("%s read back by the lexer differ from what was written (%d vs %d)" % (k, len(got[k]) if got[k] else 0, len(want[k]) if want[k] else 0))
                if g["end"] != "err:eof":
                    probs.append("lexer did not reach a clean end of file: %s" % g["end"])
        report_case(rep, c, probs[:3], cl.lex_replay)
    for c in rcases:
        g = go_r.get(c["id"])
        probs = []
        f = c["base"]
        if g and g["ops"]:
            if f["o"]["comp"] == "xor":
                st["xor_files"] += 1          # Reader has no custom-decompressor hook: chunked xor files cannot be scanned
            for oi, o in enumerate(g["ops"]):
                if o["panic"]:
                    probs.append("reader crashed: %s" % o["panic"])
                elif (o["head"] or "").startswith("messages ok") and not (f["o"]["comp"] == "xor" and f["o"]["chunked"]):
                    schemas = {c2[1]: c2 for c2 in f["calls"] if c2[0] == "S"}
                    channels = {}
                    want = []
                    for c2 in f["calls"]:
                        if c2[0] == "C":
                            channels.setdefault(c2[1], c2)
                        if c2[0] == "M":
                            ch = channels[c2[1]]
                            sc = schemas.get(ch[2])
                            stext = "noschema" if ch[2] == 0 else "schema %d %s %s %s" % (sc[1], cm.hx(sc[2]), cm.hx(sc[3]), cm.hx(sc[4]))
                            kv = ",".join("%s:%s" % (k.hex(), v.hex()) for k, v in sorted(ch[5])) or "-"
                            want.append("msg %s channel %d %d %s %s %s message %d %d %d %d %s" % (stext, ch[1], ch[2], cm.hx(ch[3]), cm.hx(ch[4]), kv,
                                                                                                 c2[1], c2[2], c2[3], c2[4], cm.hx(c2[5])))
                    st["messages_compared"] += len(want)
                    if o["msgs"] != want:
                        n = next((j for j in range(min(len(want), len(o["msgs"]))) if want[j] != o["msgs"][j]), min(len(want), len(o["msgs"])))
                        probs.append("sequential message read (%s) differs from the messages written at index %d (%d returned, %d written)" % ("NextInto" if oi else "Next", n, len(o["msgs"]), len(want)))
                    if o["end"] != "err:eof":
                        probs.append("scan ended with %s" % o["end"])
                    if o["alias"] not in (None, "0"):
                        probs.append("%s values already returned were altered by later reads" % o["alias"])
        report_case(rep, c, probs[:3], cr.read_replay)
    distinct = len(set((tuple(sorted(f["o"].items())), len(f["g"]["chunks"]) > 1, len(f["calls"]) > 10) for f in files))
    cov = summarize(rep, len(lcases) + len(rcases), distinct,
                    "workloads written by the real writer under random configurations (chunked or not, chunk size 1..1 MiB, none/zstd/lz4/xor at all levels, CRC on/off, all Skip*/Override flags, SkipMagic on both sides), read back through the lexer (attachment callback, validation on/off, caller buffer reused or nil, seekable or not) and through Messages(UsingIndex(false)) with Next and NextInto; compared with the lexer/reader models event by event; oracle: decoded header/schemas/channels/messages/attachments/metadata equal the call list field by field and in order, values returned earlier unchanged at the end",
                    [cl.lex_replay(c)[:4] for c in lcases[:2]], dict(st, files=len(files), disagreements=nd1 + nd2))
    return cov, ["returned-value aliasing is observed by the harness (two snapshots), the immutable model cannot exhibit it"]


def decorate(r, L):
    """L plus unknown-opcode records (top level, inside chunks, in the summary) and trailing bytes on extensible records"""
    def unk():
        return ("unknown", r.choice([0x10, 0x42, 0x7f, 0x80, 0xaa, 0xff]), bytes(r.randrange(256) for _ in range(r.choice([0, 0, 1, 9, 40]))))
    items = []
    for it in L["items"]:
        if r.random() < 0.3:
            items.append(unk())
        if it[0] == "chunk":
            inner = []
            for jt in it[1]:
                if r.random() < 0.3:
                    inner.append(unk())
                inner.append(jt)
            if r.random() < 0.3:
                inner.append(unk())
            items.append(("chunk", inner, it[2]))
        else:
            items.append(it)
    if r.random() < 0.5:
        items.append(unk())
    D = dict(L, items=items)
    D["pad"] = r.choice([b"", b"\x01\xff\xff", b"\x00", bytes(r.randrange(256) for _ in range(7)), bytes(r.randrange(256) for _ in range(10)),
                         bytes(r.randrange(256) for _ in range(r.randint(11, 40))), b"\x01\x00" + b"\x00" * 8 + b"\x02\x00" + b"\xff" * 8])
    D["summary_unknown"] = [(r.choice([0x10, 0x90, 0xfe]), bytes(r.randrange(256) for _ in range(r.randint(0, 12)))) for _ in range(r.randint(0, 3))]
    return D


def strip_offsets(line):
    """Info lines with file offsets removed (they legitimately differ between layouts)"""
    f = line.split(" ")
    if f[0] == "footer":
        return "footer"
    if f[0] == "ci":
        return " ".join([f[0], f[1], f[2], f[7]])                 # start, end, compression
    if f[0] == "ai":
        return " ".join([f[0]] + f[3:])
    if f[0] == "mx":
        return " ".join([f[0], f[3]])
    return line


def parsed_events(events, drop_index_offsets=True):
    res = []
    for ev in events:
        op, p = tok_parsed(ev)
        if isinstance(p, dict):
            p = {k: (tuple(sorted(v)) if isinstance(v, list) else v) for k, v in p.items()}
            if drop_index_offsets and op in (2, 7, 8, 10, 13, 14, 15):
                # records that carry file offsets / CRCs over bytes: compare kind only
                res.append((op,))
                continue
            if op == 6:
                res.append((op,)); continue
            if op == 11:
                p = dict(p)
        res.append((op, tuple(sorted(p.items())) if isinstance(p, dict) else p))
    return res


def layout_reads(fid, data, windows=None):
    base = {"file": data}
    extra = []
    if windows:
        d0, d1, dl = windows
        # time-bounded index-based reads: only part of the chunk indexes is selected
        extra = [dict(base, id=fid + "_winlo", kind="read", ropts=["afternanos:%d" % d0, "beforenanos:%d" % d1], ops=[["messages"]]),
                 dict(base, id=fid + "_winhi", kind="read", ropts=["order:log", "afternanos:%d" % dl], ops=[["messages", "into"]])]
    return extra + [dict(base, id=fid + "_lex", kind="lex", lopts={"cb": "full"}),
            dict(base, id=fid + "_lexv", kind="lex", lopts={"cb": "full", "validate": 1}),
            dict(base, id=fid + "_info", kind="read", ropts=[], ops=[["info"]]),
            dict(base, id=fid + "_idx", kind="read", ropts=["mdcb"], ops=[["messages"]]),
            dict(base, id=fid + "_scan", kind="read", ropts=["index:0", "mdcb"], ops=[["messages"]]),
            dict(base, id=fid + "_log", kind="read", ropts=["order:log"], ops=[["messages"]]),
            dict(base, id=fid + "_rev", kind="read", ropts=["order:rev", "topics:" + b"/a".hex()], ops=[["messages"]])]


def read_signature(kind_suffix, g):
    """what a read reports, with layout-dependent offsets removed"""
    if g is None:
        return None
    if "events" in g:
        if g["panic"]:
            return ("panic", g["panic"])
        return (g["new"], tuple(parsed_events(g["events"])), g["end"])
    sig = []
    for o in g["ops"]:
        if o["panic"]:
            sig.append(("panic", o["panic"])); continue
        msgs = o["msgs"] if kind_suffix in ("_idx", "_scan") else sorted(o["msgs"])
        info = [strip_offsets(l) for l in o["info"]]
        sig.append((o["head"], tuple(msgs), tuple(o["mds"]), o["end"], tuple(info)))
    return tuple(sig)


@prop("C11")
def check_c11(rep, tier, seed, wd, replay):
    import random
    r = random.Random(seed * 1000 + 11)
    n = 300 if tier == "quick" else 2000
    lcases, rcases, pairs = [], [], []
    for i in range(n):
        L = arrangement(r, r.randint(1, 5), r.randint(1, 4), r.choice([[0, 1, 2, 3], [5, 9, 2**40, 2**64 - 1], list(range(12))]))
        L["items"].insert(r.randint(0, len(L["items"])), ("attachment", {"log_time": 3, "create_time": 4, "name": b"a", "media_type": b"m", "data": b"attachment-data"}))
        L["items"].append(("metadata", {"name": b"tail", "metadata": [(b"x", b"y"), (b"a", b"")]}))
        D = decorate(r, L)
        plain, _ = mcapenc.build(L)
        deco, _ = mcapenc.build(D)
        pid, did = "c11p%d" % i, "c11d%d" % i
        for c in layout_reads(pid, plain) + layout_reads(did, deco):
            (lcases if c["kind"] == "lex" else rcases).append(c)
        pairs.append((pid, did, L, D))
    go_l, model_l, nd1 = lex_corr(rep, lcases, wd, "c11l")
    go_r, model_r, nd2 = read_corr(rep, rcases, wd, "c11r")
    byid = {c["id"]: c for c in lcases + rcases}
    ncmp = 0
    for pid, did, L, D in pairs:
        for suf in ("_lex", "_lexv", "_info", "_idx", "_scan", "_log", "_rev"):
            gp = (go_l if suf.startswith("_lex") else go_r).get(pid + suf)
            gd = (go_l if suf.startswith("_lex") else go_r).get(did + suf)
            c = byid[did + suf]
            probs = []
            if gp is not None and gd is not None:
                ncmp += 1
                if read_signature(suf, gp) != read_signature(suf, gd):
                    probs.append("%s of the file with unknown records / appended bytes differs from the plain file's" % suf[1:])
            report_case(rep, c, probs, cl.lex_replay if suf.startswith("_lex") else cr.read_replay)
        for suf in ("_lex", "_lexv", "_info", "_idx", "_scan", "_log", "_rev"):
            c = byid[pid + suf]
            report_case(rep, c, [], cl.lex_replay if suf.startswith("_lex") else cr.read_replay)
    cov = summarize(rep, len(lcases) + len(rcases), len(pairs),
                    "contents rendered by the reference encoder twice: plain, and decorated with unknown-opcode records (0x10..0xff, length 0..40) at top level, inside chunks and in the summary, plus trailing bytes on every extensible record (incl. the conformance 'pad' bytes 01 ff ff); both read by the lexer (validation on/off), Info, indexed, scan, LogTime and Reverse+topic reads; compared with the model; oracle: parsed records, messages, metadata callbacks and Info (file offsets removed) of the decorated file equal the plain file's",
                    [cl.lex_replay(c)[:4] for c in lcases[:2]], {"pairs": len(pairs), "read_comparisons": ncmp, "disagreements": nd1 + nd2})
    return cov, []


EMPTY_FRAMES = {b"zstd": bytes.fromhex("28b52ffd2000010000")}     # what the reference zstd library emits for no input


def build_compressed(layouts, wd, tag):
    """mcapenc.build for layouts whose chunks name a compression: the chunk payloads come from the codec libraries the
    Go harness links (helper mode `compress`), an empty zstd chunk from the reference library's 9-byte frame (the Go
    encoder emits no bytes at all for it; both are valid). Returns the files in order."""
    wanted = {}

    def rec(comp, plain):
        wanted[(bytes(comp), bytes(plain))] = None
        return b""
    for L in layouts:
        mcapenc.build(L, compress=rec)
    keys = sorted(wanted)
    q = [("k%d" % i, ["compress %s %s" % (k[0].decode(), cm.hx(k[1]))]) for i, k in enumerate(keys) if k[1] or k[0] not in EMPTY_FRAMES]
    raw = {}
    if q:
        raw, _ = cm.run_sharded(impl_path(), "compress", q, wd, tag + "comp", nshards=4)
    for i, k in enumerate(keys):
        if not k[1] and k[0] in EMPTY_FRAMES:
            wanted[k] = EMPTY_FRAMES[k[0]]
            continue
        line = next((l for l in raw.get("k%d" % i, []) if l.startswith("compressed ")), None)
        f = line.split(" ") if line else []
        wanted[k] = cm.unhx(f[2]) if len(f) > 2 else b""
    out = []
    for L in layouts:
        out.append(mcapenc.build(L, compress=lambda comp, plain: wanted[(bytes(comp), bytes(plain))])[0])
    return out


def relayout(r, L, compressed=False):
    """another legal layout of the same logical content"""
    msgs = []
    others = []
    heads = []
    for it in L["items"]:
        if it[0] in ("schema", "channel"):
            heads.append(it)
        elif it[0] == "chunk":
            msgs += [j for j in it[1] if j[0] == "message"]
        elif it[0] == "message":
            msgs.append(it)
        else:
            others.append(it)
    items = []
    style = r.choice(["top", "inchunk", "repeat"])
    if style == "top":
        items += heads
    i = 0
    first = True
    while i < len(msgs) or first:
        n = r.choice([0, 1, 1, 2, 3, 5, len(msgs)])
        part = msgs[i:i + n]
        i += n
        if r.random() < 0.25 and part:
            items += ([h for h in heads] if first and style != "top" else []) + part      # unchunked messages
        else:
            inner = ([h for h in heads] if (first and style != "top") or style == "repeat" else []) + part
            if inner or r.random() < 0.3:
                items.append(("chunk", inner, {"compression": r.choice([b"", b"", b"zstd", b"lz4"])} if compressed else {}))
            elif first and style != "top":
                items += heads
        if others and r.random() < 0.5:
            items.append(others.pop(0))
        first = False
        if i >= len(msgs):
            break
    items += others
    groups = ["schema", "channel", "statistics", "chunk_index", "attachment_index", "metadata_index"]
    r.shuffle(groups)
    if r.random() < 0.3:
        groups.remove("statistics")
    if r.random() < 0.3:
        groups.remove("attachment_index")
    return dict(L, items=items, groups=groups, message_index=r.random() < 0.7, summary_offsets=r.random() < 0.7, crc=r.random() < 0.7)


@prop("C12")
def check_c12(rep, tier, seed, wd, replay):
    import random
    r = random.Random(seed * 1000 + 12)
    n = 220 if tier == "quick" else 1500
    lcases, rcases, groups, pending = [], [], [], []
    for i in range(n):
        dom = r.choice([[0, 1, 2, 3], [5, 9, 2**40, 2**64 - 1], list(range(12))])
        L = arrangement(r, r.randint(1, 5) if i % 3 else r.randint(4, 9), r.randint(1, 4), dom, empty_channel=False)
        L["items"] = [it for it in L["items"] if it[0] != "metadata"]
        L["items"].append(("attachment", {"log_time": 3, "create_time": 4, "name": b"a", "media_type": b"m", "data": b"attachment-data"}))
        L["items"].append(("metadata", {"name": b"tail", "metadata": [(b"x", b"y")]}))
        ids = []
        for v in range(3):
            LL = L if v == 0 else relayout(r, L, compressed=True)
            fid = "c12_%d_%d" % (i, v)
            ids.append((fid, LL))
            pending.append((fid, LL, (dom[0], dom[1], dom[-1])))
        groups.append(ids)
    for (fid, LL, win), data in zip(pending, build_compressed([p[1] for p in pending], wd, "c12")):
        for c in layout_reads(fid, data, windows=win):
            (lcases if c["kind"] == "lex" else rcases).append(c)
    go_l, model_l, nd1 = lex_corr(rep, lcases, wd, "c12l")
    go_r, model_r, nd2 = read_corr(rep, rcases, wd, "c12r")
    byid = {c["id"]: c for c in lcases + rcases}

    def content_sig(suf, g):
        if g is None:
            return None
        if "events" in g:
            if g["panic"]:
                return ("panic",)
            c = lex_content(g["events"])
            return (g["new"], c["header"], tuple(sorted(set(c["schemas"]))), tuple(sorted(set(c["channels"]))), tuple(c["messages"]),
                    tuple(c["attachments"]), tuple(c["metadata"]), g["end"])
        sig = []
        for o in g["ops"]:
            if o["panic"]:
                sig.append(("panic",)); continue
            if suf == "_info":
                keep = [l for l in o["info"] if l.split(" ")[0] in ("ischema", "ichannel")]
                sig.append((o["head"], tuple(keep)))
            else:
                msgs = o["msgs"] if suf in ("_idx", "_scan", "_winlo") else sorted(o["msgs"])
                sig.append((o["head"].replace(" scan", "").replace(" indexed", "") if o["head"] else None, tuple(msgs), tuple(o["mds"]) if suf == "_scan" else (), o["end"]))
        return tuple(sig)
    ncmp = 0
    for ids in groups:
        ref_id, ref_L = ids[0]
        for fid, LL in ids[1:]:
            for suf in ("_lex", "_lexv", "_info", "_idx", "_scan", "_log", "_rev", "_winlo", "_winhi"):
                G = go_l if suf.startswith("_lex") else go_r
                a, b = G.get(ref_id + suf), G.get(fid + suf)
                c = byid[fid + suf]
                probs = []
                if a is not None and b is not None:
                    ncmp += 1
                    sa, sb = content_sig(suf, a), content_sig(suf, b)
                    # indexed reads are compared only between layouts that both carry what the index-based reader needs
                    indexable = lambda X: "chunk_index" in X.get("groups", ["chunk_index"]) and any(it[0] == "chunk" for it in X["items"])
                    unchunked = lambda X: any(it[0] == "message" for it in X["items"])
                    if suf in ("_idx", "_log", "_rev", "_winlo", "_winhi") and not (indexable(ref_L) and indexable(LL) and not unchunked(ref_L) and not unchunked(LL)):
                        pass
                    elif sa != sb:
                        probs.append("%s of two legal layouts of the same content differ" % suf[1:])
                report_case(rep, c, probs, cl.lex_replay if suf.startswith("_lex") else cr.read_replay)
        for suf in ("_lex", "_lexv", "_info", "_idx", "_scan", "_log", "_rev", "_winlo", "_winhi"):
            c = byid[ref_id + suf]
            report_case(rep, c, [], cl.lex_replay if suf.startswith("_lex") else cr.read_replay)
    cov = summarize(rep, len(lcases) + len(rcases), len(groups),
                    "each logical content rendered by the reference encoder in 3 legal layouts: different chunk partitions (incl. empty chunks and unchunked messages), per-chunk compression none/zstd/lz4 (payloads from the codec libraries; empty zstd chunks as the reference library's 9-byte frame or as no bytes), schema/channel records at top level / inside the first chunk / repeated in every chunk, all permutations of summary groups sampled, optional sections (statistics, attachment index, message indexes, summary offsets, CRCs) present or not; read by lexer, Info, indexed, scan, LogTime, Reverse+topic, and two time-bounded index-based reads (a narrow window at the low end in file order, an open-ended one at the high end in log-time order); compared with the model; oracle: same content from every layout (indexed reads compared between layouts that keep chunk indexes and chunk every message)",
                    [cl.lex_replay(c)[:4] for c in lcases[:2]], {"contents": len(groups), "layout_comparisons": ncmp, "disagreements": nd1 + nd2})
    return cov, []


# ------------------------------------------------------------------ C19: ROS 1 message definitions
PRIMS = ["bool", "int8", "uint8", "int16", "uint16", "int32", "uint32", "int64", "uint64", "float32", "float64", "string", "time", "duration", "char", "byte"]
SEP = "=" * 80


def gen_type_graph(r, depth):
    """types: name -> list of (ref_written, field_name, array_suffix, target or None)"""
    pkgs = ["pkg", "geo", "std_msgs"]
    types = {}
    order = []

    def mk(level, pkg):
        # short names are reused across packages (my_nav/Pose vs geo/Pose): only the full name is unique
        name = "%s/%s" % (pkg, r.choice(["Pose", "Point", "Item", "T%d" % len(order)]))
        if name in types or name in order:
            name = "%s/T%d" % (pkg, len(order))
        order.append(name)
        fields = []
        for i in range(r.randint(0, 5)):
            arr = r.choice(["", "", "[]", "[3]", "[0]", "[12]"])
            fname = r.choice(["x", "y_1", "data", "Z9", "a_b_c", "f%d" % i])
            if level < depth and r.random() < 0.4:
                if r.random() < 0.15:
                    if "std_msgs/Header" not in types:
                        types["std_msgs/Header"] = [("uint32", "seq", "", None), ("time", "stamp", "", None), ("string", "frame_id", "", None)]
                        order.append("std_msgs/Header")
                    fields.append(("Header", fname, arr, "std_msgs/Header"))
                else:
                    cp = r.choice([pkg, pkg, r.choice(pkgs)])
                    child = mk(level + 1, cp)
                    short = child.split("/")[1]
                    written = short if (cp == pkg and r.random() < 0.6) else child
                    fields.append((written, fname, arr, child))
            else:
                fields.append((r.choice(PRIMS), fname, arr, None))
        types[name] = fields
        return name
    top = mk(0, "pkg")
    return top, types, order


def render_def(r, top, types, order, style):
    def lines_of(name):
        out = []
        for (tref, fname, arr, target) in types[name]:
            if style >= 1 and r.random() < 0.3:
                out.append(r.choice(["# a comment", "", "   ", "int32 CONST=5", "string S = hello # c", "#"]))
            sep = " " if style == 0 else r.choice([" ", "  ", " \t", "\t ", "   \t  "])
            lead = "" if style < 2 else r.choice(["", " ", "\t", "  "])
            trail = "" if style < 2 else r.choice(["", " ", "  # trailing comment", "\t", " # 0=ok, 1=failed", "#x=1"])
            out.append(lead + tref + arr + sep + fname + trail)
        return out
    secs = ["\n".join(lines_of(top))]
    for name in order:
        if name != top:
            secs.append("MSG: " + name + "\n" + "\n".join(lines_of(name)))
    return ("\n" + SEP + "\n").join(secs) + ("\n" if r.random() < 0.5 else "")


def expected_tree(types, name):
    def ty(tref, arr, target):
        rec = "1" if target else "0"
        sub = expected_tree(types, target) if target else ""
        if arr:
            n = arr[1:-1]
            fixed = int(n) if n else 0
            return "%s:1:%d:0:[%s:0:0:%s:-:{%s}]:{}" % ((tref + arr).encode().hex(), fixed, tref.encode().hex(), rec, sub)
        return "%s:0:0:%s:-:{%s}" % (tref.encode().hex(), rec, sub)
    return ",".join("%s=%s" % (fname.encode().hex(), ty(tref, arr, target)) for (tref, fname, arr, target) in types[name])


@prop("C19")
def check_c19(rep, tier, seed, wd, replay):
    import random
    r = random.Random(seed * 1000 + 19)
    n = 1500 if tier == "quick" else 20000
    cases = []
    for i in range(n):
        top, types, order = gen_type_graph(r, r.randint(0, 5))
        style = r.randint(0, 2)
        text = render_def(r, top, types, order, style)
        cases.append({"id": "c19g%d" % i, "pkg": b"pkg", "def": text.encode(), "expect": expected_tree(types, top), "kind": "graph"})
    hostile = [b"Foo x\n" + SEP.encode() + b"\nMSG: pkg/Foo\nFoo y\n",
               b"A a\n" + SEP.encode() + b"\nMSG: pkg/A\nB b\n" + SEP.encode() + b"\nMSG: pkg/B\nA a\n",
               b"int32]3[ x", b"int32[ x", b"int32] x", b"int32[abc] x", b"int32[-4] x", b"int32[99999999999999999999] x",
               b"Header h", b"other/Thing t", b"x", b"= x", b"", b"\n\n", b"int32\tx", b"int32 \xc2\xa0x", b"\xc2\xa0int32 x\xe2\x80\x83",
               b"a/b/c d", b"int32 9x y", b"float64[3][4] m", b"string s=abc", b"T t\n" + SEP.encode() + b"\nMSG: pkg/T\n" + SEP.encode() + b"\nMSG: pkg/T\nint8 v\n",
               b"MSG: x\n=\nint32 a"]
    for i, h in enumerate(hostile):
        for pk in (b"pkg", b"", b"a/b"):
            cases.append({"id": "c19h%d_%s" % (i, pk.hex() or "e"), "pkg": pk, "def": h, "kind": "hostile"})
    nmut = n // 2
    for i in range(nmut):
        base = r.choice(cases[:n])["def"]
        b = bytearray(base)
        for _ in range(r.randint(1, 4)):
            k = r.random()
            if not b:
                b = bytearray(b"x")
            pos = r.randrange(len(b))
            if k < 0.3:
                b[pos] = r.choice(b"[]=#/ \t\n=MSG:")
            elif k < 0.5:
                del b[pos]
            elif k < 0.8:
                b[pos:pos] = bytes([r.choice(b"[]=#/ \t\n")])
            else:
                b[pos] = r.randrange(256)
        cases.append({"id": "c19m%d" % i, "pkg": b"pkg", "def": bytes(b), "kind": "mutated"})
    for i in range(n // 6):
        cases.append({"id": "c19r%d" % i, "pkg": b"p", "def": bytes(r.choice(b"ab[] =#/\n\tMSG:0123") for _ in range(r.randint(0, 60))), "kind": "random"})
    scripts = [(c["id"], ["msgdef %s %s" % (cm.hx(c["pkg"]), cm.hx(c["def"]))]) for c in cases]
    go, culprits = cm.run_isolated(os.path.join(cm.BUILD, "impl"), "ros1msg", scripts, wd, "c19go", timeout=60, mem_bytes=16 << 30)
    model, mcr = cm.run_sharded(os.path.join(cm.BUILD, "model"), "ros1msg", scripts, wd, "c19model")
    for cmd, rc, err in mcr:
        rep.add_violation("executor-crash", "%s exited %s: %s" % (cmd, rc, err), [], failing_input=False)
    st = {"graph": 0, "ok": 0, "err": 0, "tree_checked": 0}
    nd = 0
    for c in cases:
        rp = ["case %s" % c["id"], "msgdef %s %s" % (cm.hx(c["pkg"]), cm.hx(c["def"])), "end"]
        if c["id"] in culprits:
            rep.add_violation("oracle", "case %s: ParseMessageDefinition killed the process: %s" % (c["id"], culprits[c["id"]]), rp)
            continue
        g = (go.get(c["id"]) or [None])[0]
        m = (model.get(c["id"]) or [None])[0]
        probs = []
        if g is None:
            continue
        if g.startswith("msgdef panic"):
            probs.append("ParseMessageDefinition panicked: %s" % g)
        if g.startswith("msgdef ok"):
            st["ok"] += 1
        else:
            st["err"] += 1
        if c["kind"] == "graph":
            st["graph"] += 1
            want = "msgdef ok " + c["expect"]
            st["tree_checked"] += 1
            if g.rstrip() != want.rstrip():
                probs.append("parsed tree differs from the generating type graph")
        for p in probs:
            rep.add_violation("oracle", "case %s: %s" % (c["id"], p), rp)
        if g != m:
            nd += 1
            rep.add_violation("correspondence", "case %s: impl %s | model %s" % (c["id"], g[:150], (m or "")[:150]), rp, failing_input=bool(probs))
    cov = summarize(rep, len(cases), len(set(c["def"] for c in cases)),
                    "definitions rendered from random type graphs (depth 0-5, all primitives, fixed/variable arrays of primitives and records, qualified/unqualified/Header references) in three whitespace/comment/constant styles, compared with the generating graph (oracle) and with the model; plus hand-made hostile definitions (self/mutual recursion, unbalanced brackets, Atoi corner cases, non-ASCII white space, duplicate sections), mutated definitions and random bytes run in isolated children (60 s deadline, 16 GiB cap); distinct = distinct definition texts",
                    [[c["def"].decode(errors="replace")[:300]] for c in cases[:2]], dict(st, disagreements=nd, hostile=len(hostile), mutated=nmut))
    return cov, ["exponential expansion of shared nested types is inherent to the tree representation and not checked"]


# ------------------------------------------------------------------ C18: ROS conversions
import rosbag_gen as rg  # noqa: E402


def run_bag_cases(cases, wd, tag, isolated=True):
    impl = os.path.join(cm.BUILD, "impl")
    model_exe = os.path.join(cm.BUILD, "model")
    lib = cm.lib_id()

    def lines(c, model=False, go=None):
        ls = [gw.wopts_line(c["o"])]
        if model:
            ls.append("lib " + cm.hx(lib))
            for comp, plain, payload, end in (go or {}).get("chunks", []):
                if comp != b"" and end == "eof":
                    ls.append("comp %s %s" % (cm.hx(plain), cm.hx(payload)))
            for key, val in (c.get("_dec") or {}).items():
                ls.append("dec %s %s %s %s %s" % (key[0], key[1], key[2], val[0], val[1]))
        ls.append("bag " + cm.hx(c["bag"]))
        return ls
    go_raw, culprits = cm.run_isolated(impl, "bag", [(c["id"], lines(c)) for c in cases], wd, tag + "go", timeout=180, mem_bytes=24 << 30)
    go = {}
    for k, v in go_raw.items():
        d = cw.parse_write_obs(v)
        d["bag"] = next((l[4:] for l in v if l.startswith("bag ")), None)
        go[k] = d
    pending = list(cases)
    model = {}
    table = {}
    for rnd in range(10):
        raw, mc = cm.run_sharded(model_exe, "bag", [(c["id"], lines(c, True, go.get(c["id"]))) for c in pending], wd, "%smodel%d" % (tag, rnd))
        for cmd, rc, err in mc:
            sys.stderr.write("model crashed: %s %s %s\n" % (cmd, rc, err[-300:]))
        again = []
        needs = set()
        for c in pending:
            v = raw.get(c["id"], [])
            nd = [tuple(l.split(" ")[1:]) for l in v if l.startswith("need ")]
            if nd and rnd < 9:
                needs.update(nd); again.append((c, nd))
            else:
                d = cw.parse_write_obs(v)
                d["bag"] = next((l[4:] for l in v if l.startswith("bag ")), None)
                model[c["id"]] = d
        if not again:
            break
        q = [("q%d" % i, ["dec %s %s %s" % nd]) for i, nd in enumerate(n for n in needs if n not in table)]
        if q:
            draw, _ = cm.run_sharded(impl, "decomp", q, wd, "%sdec%d" % (tag, rnd))
            for ls in draw.values():
                for l in ls:
                    f = l.split(" ")
                    if f[0] == "dec":
                        table[(f[1], f[2], f[3])] = (f[4], f[5])
        pending = []
        for c, nd in again:
            dec = dict(c.get("_dec") or {})
            for n in nd:
                if n in table:
                    dec[n] = table[n]
            c["_dec"] = dec
            pending.append(c)
    return go, model, culprits


def lz4_compress_fn(wd):
    cache = {}

    def f(data):
        if data not in cache:
            raw, _ = cm.run_sharded(os.path.join(cm.BUILD, "impl"), "compress", [("c", ["compress lz4 " + cm.hx(data)])], wd, "lz4c%d" % len(cache), nshards=1)
            cache[data] = cm.unhx([l for l in raw["c"] if l.startswith("compressed")][0].split(" ")[2])
        return cache[data]
    return f


@prop("C18")
def check_c18(rep, tier, seed, wd, replay):
    import random
    r = random.Random(seed * 1000 + 18)
    n = 80 if tier == "quick" else 1500
    lz4 = lz4_compress_fn(wd)
    g0 = gw.Gen(seed * 1000 + 18)
    cases = []
    for i in range(n):
        B = rg.gen_bag(r)
        o = g0.wopts(skipmagic=False)
        if o["comp"] == "xor":
            o["comp"], o["custom"] = "", False
        cases.append({"id": "c18b%d" % i, "o": o, "bag": rg.render(B, lz4), "B": B, "kind": "valid"})
    # corruptions of valid bags
    ncor = 0
    for c in list(cases[: (40 if tier == "quick" else 600)]):
        data = c["bag"]
        for j in range(6):
            k = r.random()
            if k < 0.2:
                bad = data[:r.randrange(len(data))]
            elif k < 0.3:
                bad = r.choice([b"", b"#ROSBAG", b"#ROSBAG V1.2\n" + data[13:], b"not a bag at all"])
            else:
                b = bytearray(data)
                pos = r.randrange(13, len(b) - 4)
                val = r.choice([0, 1, 0xFFFFFFFF, 0x80000000, 0x7FFFFFFF, len(data), 5])
                if k < 0.7:
                    # aim at a length prefix: find a plausible one near pos
                    b[pos:pos + 4] = val.to_bytes(4, "little")
                else:
                    b[pos] = r.randrange(256)
                bad = bytes(b)
            ncor += 1
            cases.append({"id": "%s_bad%d" % (c["id"], j), "o": c["o"], "bag": bad, "kind": "corrupt"})
    for name, bad in (("empty", b""), ("shortmagic", b"#ROS"), ("emptyop", b"#ROSBAG V2.0\n" + rg.record([(b"op", b"")], b"")),
                      ("shortconn", b"#ROSBAG V2.0\n" + rg.record([(b"op", b"\x02"), (b"conn", b"\x01"), (b"time", b"\x00" * 8)], b"d")),
                      ("shorttime", b"#ROSBAG V2.0\n" + rg.record([(b"op", b"\x07"), (b"conn", b"\x00" * 4), (b"topic", b"/t")], rg.field(b"type", b"T") + rg.field(b"md5sum", b"1") + rg.field(b"message_definition", b"")) +
                       rg.record([(b"op", b"\x02"), (b"conn", b"\x00" * 4), (b"time", b"\x00" * 3)], b"d")),
                      ("hugehdr", b"#ROSBAG V2.0\n" + (0x80000001).to_bytes(4, "little") + b"abc"),
                      ("hugedata", b"#ROSBAG V2.0\n" + rg.record([(b"op", b"\x02")], b"")[:-4] + (0x80000000).to_bytes(4, "little")),
                      ("fieldlen", b"#ROSBAG V2.0\n" + (12).to_bytes(4, "little") + (500).to_bytes(4, "little") + b"op=\x02abc" + (0).to_bytes(4, "little")),
                      ("msgnoconn", b"#ROSBAG V2.0\n" + rg.msg_record({"conn": 5, "secs": 1, "nsecs": 2, "data": b"x"}))):
        o = g0.wopts(skipmagic=False, comp="", custom=False)
        cases.append({"id": "c18x_" + name, "o": o, "bag": bad, "kind": "corrupt"})
    go, model, culprits = run_bag_cases(cases, wd, "c18")
    st = {"valid": 0, "corrupt": 0, "converted_messages": 0, "errors": 0}
    nd = 0
    for c in cases:
        rp = ["case %s" % c["id"], gw.wopts_line(c["o"]), "bag " + cm.hx(c["bag"]), "end"]
        if c["id"] in culprits:
            rep.add_violation("oracle", "case %s: Bag2MCAP terminated the process: %s" % (c["id"], culprits[c["id"]]), rp)
            continue
        g, m = go.get(c["id"]), model.get(c["id"])
        if g is None:
            continue
        probs = []
        if g["bag"] is None or (g["bag"] or "").startswith("panic"):
            probs.append("Bag2MCAP panicked: %s" % g["bag"])
        elif c["kind"] == "valid":
            st["valid"] += 1
            if g["bag"] != "ok":
                probs.append("valid bag rejected: %s" % g["bag"])
            else:
                try:
                    d = mcapspec.decode(b"".join(g["writes"]), cw.plain_lookup(g))
                    exp = rg.expected(c["B"])
                    got = [(m2["channel_id"], m2["log_time"], m2["publish_time"], m2["data"], m2["sequence"]) for m2 in d["messages"]]
                    want = [(e["conn"], e["secs"] * 10**9 + e["nsecs"], e["secs"] * 10**9 + e["nsecs"], e["data"], i) for i, e in enumerate(exp)]
                    st["converted_messages"] += len(want)
                    if got != want:
                        probs.append("converted messages differ from the bag's messages (%d vs %d)" % (len(got), len(want)))
                    conn_by_id = {cn["id"]: cn for cn in c["B"]["conns"]}
                    used = set(e["conn"] for e in exp)
                    keys = {}
                    for cid, ch in d["channels"].items():
                        cn = conn_by_id.get(cid)
                        if cn is None:
                            probs.append("channel %d has no connection" % cid); continue
                        f = dict(cn["fields"])
                        meta = sorted((k, v) for k, v in f.items() if k not in (b"type", b"message_definition"))
                        if ch["topic"] != cn["topic"] or sorted(ch["metadata"]) != meta or ch["message_encoding"] != b"ros1":
                            probs.append("channel %d does not carry the connection's topic/header fields" % cid)
                        sc = d["schemas"].get(ch["schema_id"])
                        if sc is None or sc["name"] != f[b"type"] or sc["data"] != f[b"message_definition"] or sc["encoding"] != b"ros1msg":
                            probs.append("schema of channel %d does not carry the connection's type and definition" % cid)
                        keys.setdefault((f[b"type"], f[b"md5sum"]), set()).add(ch["schema_id"])
                    if any(len(v) != 1 for v in keys.values()) or len(set(x for v in keys.values() for x in v)) != len(keys):
                        probs.append("not exactly one schema per distinct type/md5sum")
                    if not used <= set(d["channels"]):
                        probs.append("a connection with messages has no channel")
                    if d["header"]["profile"] != b"ros1":
                        probs.append("profile is not ros1")
                except mcapspec.SpecError as e:
                    probs.append("converted file is not a valid MCAP: %s" % e)
        else:
            st["corrupt"] += 1
            if g["bag"] != "ok":
                st["errors"] += 1
        for p in probs[:3]:
            rep.add_violation("oracle", "case %s: %s" % (c["id"], p), rp)
        d = None
        if m is not None:
            d = cw.diff_obs(g, m, ["bag", "writes"])
        if d:
            nd += 1
            rep.add_violation("correspondence", "case %s: %s" % (c["id"], d), rp, failing_input=bool(probs))
    # ---------------- ROS 2 db3
    import sqlite3
    ndb = 40 if tier == "quick" else 600
    dbcases = []
    SEPL = "=" * 80
    MSGS = {"std_msgs/msg/Header": "builtin_interfaces/Time stamp\nstring frame_id", "builtin_interfaces/msg/Time": "int32 sec\nuint32 nanosec\n",
            "geometry_msgs/msg/Point": "float64 x\nfloat64 y\nfloat64 z", "geometry_msgs/msg/PointStamped": "# a comment\nstd_msgs/Header header\nPoint point\n",
            "pkg/msg/Plain": "int32 a\nstring<=10 name\nfloat32[3] arr", "pkg/msg/Nested": "Plain p\ngeometry_msgs/PointStamped[] pts\nPlain q"}
    base_dir = os.path.join(wd, "ament")
    pk = {}
    for t, text in MSGS.items():
        pkg, _, name = t.split("/")
        os.makedirs(os.path.join(base_dir, "share", pkg, "msg"), exist_ok=True)
        open(os.path.join(base_dir, "share", pkg, "msg", name + ".msg"), "w").write(text)
        pk.setdefault(pkg, []).append("msg/%s.msg" % name)
    os.makedirs(os.path.join(base_dir, "share", "ament_index", "resource_index", "rosidl_interfaces"), exist_ok=True)
    for pkg, ls in pk.items():
        open(os.path.join(base_dir, "share", "ament_index", "resource_index", "rosidl_interfaces", pkg), "w").write("\n".join(ls) + "\n")
    PRIM = {"bool", "int8", "uint8", "int16", "uint16", "int32", "uint32", "int64", "uint64", "float32", "float64", "string", "time", "duration", "char", "byte"}

    def assemble(t):
        """independent implementation of the documented schema concatenation"""
        out = ""
        queue = [t]
        seen = {t}
        first = True
        while queue:
            cur = queue.pop(0)
            text = MSGS[cur]
            if not first:
                if not out.endswith("\n"):
                    out += "\n"
                out += SEPL + "\n" + "MSG: %s\n" % cur.replace("/msg/", "/", 1)
            out += text
            first = False
            for line in text.split("\n"):
                line = line.strip()
                if not line or line.startswith("#"):
                    continue
                ft = line.split(" ")[0]
                for ch in "[<":
                    if ch in ft[1:]:
                        ft = ft[:ft.index(ch, 1)]
                if ft in PRIM:
                    continue
                parts = [x for x in ft.split("/") if x]
                q = "%s/msg/%s" % (cur.split("/")[0], ft) if len(parts) == 1 else "%s/msg/%s" % (parts[0], parts[1])
                if q not in seen:
                    seen.add(q); queue.append(q)
        return out.encode()
    for i in range(ndb):
        pth = os.path.join(wd, "c18db%d.db3" % i)
        con = sqlite3.connect(pth)
        qos = r.random() < 0.6
        con.execute("create table topics(id integer primary key, name text, type text, serialization_format text%s)" % (", offered_qos_profiles text" if qos else ""))
        con.execute("create table messages(id integer primary key, topic_id integer, timestamp integer, data blob)")
        topics = []
        ids = r.sample([1, 2, 3, 7, 65535, 100], r.randint(1, 4))
        for tid in ids:
            typ = r.choice(list(MSGS) + ["pkg/srv/NotAMessage", "action_msgs/srv/CancelGoal"])
            row = (tid, "/topic%d" % tid, typ, "cdr") + ((r.choice([None, "", "- history: 3\n  depth: 0"]),) if qos else ())
            con.execute("insert into topics values (%s)" % ",".join("?" * len(row)), row)
            topics.append(row)
        msgs = []
        for k in range(r.randint(0, 12)):
            tid = r.choice(ids)
            ts = r.choice([0, 5, 5, 1600000000000000000, 2**63 - 1, r.randrange(2**40)])
            data = bytes(r.randrange(256) for _ in range(r.randint(0, 20)))
            con.execute("insert into messages(topic_id, timestamp, data) values (?,?,?)", (tid, ts, data))
            msgs.append((tid, ts, data))
        con.commit(); con.close()
        o = g0.wopts(skipmagic=False)
        if o["comp"] == "xor":
            o["comp"], o["custom"] = "", False
        dbcases.append({"id": "c18d%d" % i, "o": o, "db": pth, "topics": topics, "msgs": msgs, "qos": qos})
    impl = os.path.join(cm.BUILD, "impl")
    lib = cm.lib_id()
    go_raw, dculp = cm.run_isolated(impl, "db3", [(c["id"], [gw.wopts_line(c["o"]), "db " + c["db"], "dir " + base_dir]) for c in dbcases], wd, "c18dgo", timeout=180, mem_bytes=24 << 30)
    mscripts = []
    for c in dbcases:
        v = go_raw.get(c["id"], [])
        g = cw.parse_write_obs(v)
        ls = [gw.wopts_line(c["o"]), "lib " + cm.hx(lib)]
        for comp, plain, payload, end in g["chunks"]:
            if comp != b"" and end == "eof":
                ls.append("comp %s %s" % (cm.hx(plain), cm.hx(payload)))
        ls += [l for l in v if l.split(" ")[0] in ("topicrow", "msgrow", "schema", "schemas")]
        mscripts.append((c["id"], ls))
    mod_raw, mcr = cm.run_sharded(os.path.join(cm.BUILD, "model"), "db3", mscripts, wd, "c18dmodel")
    st["db3"] = 0
    st["db3_messages"] = 0
    for c in dbcases:
        rp = ["case %s" % c["id"], "# topics %r" % (c["topics"],), "# messages %r" % (c["msgs"][:20],), gw.wopts_line(c["o"]), "end"]
        if c["id"] in dculp:
            rep.add_violation("oracle", "case %s: DB3ToMCAP terminated the process: %s" % (c["id"], dculp[c["id"]]), rp)
            continue
        v = go_raw.get(c["id"], [])
        g = cw.parse_write_obs(v)
        gres = next((l[4:] for l in v if l.startswith("db3 ")), None)
        mv = mod_raw.get(c["id"], [])
        m = cw.parse_write_obs(mv)
        mres = next((l[4:] for l in mv if l.startswith("db3 ")), None)
        probs = []
        st["db3"] += 1
        if gres is None or gres.startswith("panic"):
            probs.append("DB3ToMCAP panicked: %s" % gres)
        else:
            mtopics = [t for t in c["topics"] if "/msg/" in t[2]]
            # schema assembly vs the independent implementation
            for l in v:
                if l.startswith("schema "):
                    f = l.split(" ")
                    if cm.unhx(f[2]) != assemble(cm.unhx(f[1]).decode()):
                        probs.append("assembled schema for %s differs from the concatenation of its definition files" % cm.unhx(f[1]).decode())
            if gres != "ok":
                probs.append("conversion of a valid database failed: %s" % gres)
            else:
                try:
                    d = mcapspec.decode(b"".join(g["writes"]), cw.plain_lookup(g))
                    mt_ids = set(t[0] for t in mtopics)
                    rows = sorted([mm for mm in c["msgs"] if mm[0] in mt_ids], key=lambda mm: mm[1])   # stable: insertion order within equal timestamps
                    seqs = {}
                    want = []
                    for tid, ts, data in rows:
                        want.append((tid, seqs.get(tid, 0), ts, ts, data)); seqs[tid] = seqs.get(tid, 0) + 1
                    got = [(mm["channel_id"], mm["sequence"], mm["log_time"], mm["publish_time"], mm["data"]) for mm in d["messages"]]
                    st["db3_messages"] += len(want)
                    if sorted(got) != sorted(want) or [x[2] for x in got] != sorted(x[2] for x in got):
                        probs.append("converted messages differ from the stored messages of message-typed topics (%d vs %d) or are not in timestamp order" % (len(got), len(want)))
                    for t in mtopics:
                        ch = d["channels"].get(t[0])
                        if ch is None or ch["topic"] != t[1].encode() or ch["message_encoding"] != t[3].encode():
                            probs.append("topic %d has no faithful channel" % t[0]); continue
                        wantmeta = [(b"offered_qos_profiles", t[4].encode())] if c["qos"] and t[4] is not None else []
                        if sorted(ch["metadata"]) != wantmeta:
                            probs.append("channel %d does not preserve the QoS metadata" % t[0])
                        sc = d["schemas"].get(ch["schema_id"])
                        if sc is None or sc["name"] != t[2].encode() or sc["encoding"] != b"ros2msg" or sc["data"] != assemble(t[2]):
                            probs.append("schema of topic %d is not the assembled definition of %s" % (t[0], t[2]))
                    if d["header"]["profile"] != b"ros2":
                        probs.append("profile is not ros2")
                except mcapspec.SpecError as e:
                    probs.append("converted file is not a valid MCAP: %s" % e)
        for p in probs[:3]:
            rep.add_violation("oracle", "case %s: %s" % (c["id"], p), rp)
        if (gres, g["writes"]) != (mres, m["writes"]):
            nd += 1
            rep.add_violation("correspondence", "case %s: db3 conversion: impl %s (%d bytes) model %s (%d bytes)" % (c["id"], gres, len(b"".join(g["writes"])), mres, len(b"".join(m["writes"]))), rp, failing_input=bool(probs))
    # ---------------- ROS 2 schema assembly (getSchemas) on generated ament trees: model vs implementation, and for
    # well-formed trees an independent expectation; malformed definition files, index files and type names must give errors
    import gen_schemas
    scs = gen_schemas.cases(seed * 1000 + 18, 150 if tier == "quick" else 1500, 350 if tier == "quick" else 4000)
    sgo, sculp = cm.run_isolated(impl, "schemas", [(c["id"], c["lines"]) for c in scs], wd, "c18sgo", timeout=60, mem_bytes=16 << 30)
    smo, smcr = cm.run_sharded(os.path.join(cm.BUILD, "model"), "schemas", [(c["id"], c["lines"]) for c in scs], wd, "c18smodel")
    for cmd, rc, err in smcr:
        rep.add_violation("executor-crash", "%s exited %s: %s" % (cmd, rc, err), [], failing_input=False)
    st["schema_trees"] = len(scs)
    st["schema_outcomes"] = {}
    for c in scs:
        rp = ["# mode schemas", "case " + c["id"]] + c["lines"] + ["end"]
        g, m = sgo.get(c["id"]), smo.get(c["id"])
        if c["id"] in sculp:
            rep.add_violation("oracle", "case %s: schema assembly killed the process: %s" % (c["id"], sculp[c["id"]]), rp)
            continue
        if g is None or m is None:
            rep.add_violation("missing-output", "case %s: no output (impl %s, model %s)" % (c["id"], g is not None, m is not None), rp, failing_input=False)
            continue
        res = next((l for l in g if l.startswith("schemas ")), "schemas ?")
        st["schema_outcomes"][res] = st["schema_outcomes"].get(res, 0) + 1
        probs = []
        if res == "schemas panic":
            probs.append("schema assembly crashed (panic) on a malformed definition tree instead of returning an error")
        elif c["expected"] is not None:
            got = {cm.unhx(l.split(" ")[1]): cm.unhx(l.split(" ")[2]) if len(l.split(" ")) > 2 else b"" for l in g if l.startswith("schema ")}
            if res != "schemas ok":
                probs.append("schema assembly failed on a complete, well-formed definition tree (%s)" % res)
            elif got != c["expected"]:
                bad = sorted(k for k in c["expected"] if got.get(k) != c["expected"][k])
                probs.append("assembled schema of %s differs from the concatenation of its definition files (breadth-first, first occurrence, separator and MSG: headers)" % (bad[0] if bad else "?"))
        for p in probs:
            rep.add_violation("oracle", "case %s: %s" % (c["id"], p), rp)
        if g != m:
            nd += 1
            rep.add_violation("correspondence", "case %s: schema assembly: impl %s, model %s" % (c["id"], res, next((l for l in m if l.startswith("schemas ")), "?")), rp, failing_input=bool(probs))
    cov = summarize(rep, len(cases) + len(dbcases) + len(scs), len(set(c["bag"] for c in cases)) + len(dbcases),
                    "generated ament trees (1-2 search directories, several packages, nested and mutually recursive definitions, arrays/bounds/comments/odd white space; hostile field types, type names, index files, directories in place of files and the reverse) through the schema assembly of the db3 converter, compared with the Ros2Schema model and, for complete trees, with an independent expectation; malformed input must be an error. generated SQLite databases (with/without the QoS column, equal timestamps, topics without messages, non-message topic types with messages) converted with DB3ToMCAP against a generated ament index; rows as the engine returns them and the assembled schemas are logged and fed to the db3+writer model; schema assembly compared with an independent implementation. generated ROS 1 bags (1-5 connections incl. ids 0 and 65535, repeated connection records, shared and distinct types/md5, empty and 300-byte messages, times up to 2^32-1 s, chunks none/lz4/bz2 or unchunked records) converted under random MCAP writer options; corruptions of valid bags (bad/short magic, truncation, hostile header and field lengths, byte noise) and hand-made hostile records, each conversion in an isolated child; output bytes compared with the bag+writer model; oracle: the converted file decodes (independent decoder) to one message per bag message in order with the right times/bytes/channel/schema; invalid input gives an error, never a crash/exit",
                    [[c["bag"][:200].hex()] for c in cases[:2]], dict(st, disagreements=nd, corrupted=ncor))
    return cov, ["lz4/bz2 bag chunk decoders are oracles", "db3: the SQLite engine is an input of the model (row lists); the file system is modelled as a finite tree (os.ReadFile: content / not-exist / other error)"]


# ------------------------------------------------------------------ C17: conformance matrix
import conformance as cf  # noqa: E402


def records_from_events(events):
    """lexer events -> conformance record list (type, fields) in the expectation's vocabulary"""
    S = lambda b: b.decode("utf-8", "replace")
    L = lambda b: tuple(str(x) for x in b)
    D = lambda kv: tuple(sorted((S(k), S(v)) for k, v in kv))
    out = []
    for ev in events:
        op, p = tok_parsed(ev)
        if op == "att":
            out.append(("Attachment", {"create_time": str(p["create_time"]), "data": L(p["data"]), "log_time": str(p["log_time"]),
                                       "media_type": S(p["media_type"]), "name": S(p["name"])}))
        elif not isinstance(p, dict):
            out.append(("?", {}))
        elif op == 1:
            out.append(("Header", {"library": S(p["library"]), "profile": S(p["profile"])}))
        elif op == 2:
            out.append(("Footer", {"summary_crc": str(p["crc"]), "summary_offset_start": str(p["summary_offset_start"]), "summary_start": str(p["summary_start"])}))
        elif op == 3:
            out.append(("Schema", {"data": L(p["data"]), "encoding": S(p["encoding"]), "id": str(p["id"]), "name": S(p["name"])}))
        elif op == 4:
            out.append(("Channel", {"id": str(p["id"]), "message_encoding": S(p["message_encoding"]), "metadata": D(p["metadata"]), "schema_id": str(p["schema_id"]), "topic": S(p["topic"])}))
        elif op == 5:
            out.append(("Message", {"channel_id": str(p["channel_id"]), "data": L(p["data"]), "log_time": str(p["log_time"]), "publish_time": str(p["publish_time"]), "sequence": str(p["sequence"])}))
        elif op == 8:
            out.append(("ChunkIndex", {"chunk_length": str(p["length"]), "chunk_start_offset": str(p["offset"]), "compressed_size": str(p["csize"]), "compression": S(p["compression"]),
                                       "message_end_time": str(p["end"]), "message_index_length": str(p["mi_length"]),
                                       "message_index_offsets": tuple(sorted((str(k), str(v)) for k, v in p["mi_offsets"])), "message_start_time": str(p["start"]), "uncompressed_size": str(p["usize"])}))
        elif op == 10:
            out.append(("AttachmentIndex", {"create_time": str(p["create_time"]), "data_size": str(p["data_size"]), "length": str(p["length"]), "log_time": str(p["log_time"]),
                                            "media_type": S(p["media_type"]), "name": S(p["name"]), "offset": str(p["offset"])}))
        elif op == 11:
            out.append(("Statistics", {"attachment_count": str(p["attachments"]), "channel_count": str(p["channels"]),
                                       "channel_message_counts": tuple(sorted((str(k), str(v)) for k, v in p["counts"])), "chunk_count": str(p["chunks"]),
                                       "message_count": str(p["messages"]), "message_end_time": str(p["end"]), "message_start_time": str(p["start"]),
                                       "metadata_count": str(p["metadata"]), "schema_count": str(p["schemas"])}))
        elif op == 12:
            out.append(("Metadata", {"metadata": D(p["metadata"]), "name": S(p["name"])}))
        elif op == 13:
            out.append(("MetadataIndex", {"length": str(p["length"]), "name": S(p["name"]), "offset": str(p["offset"])}))
        elif op == 14:
            out.append(("SummaryOffset", {"group_length": str(p["length"]), "group_opcode": str(p["op"]), "group_start": str(p["start"])}))
        elif op == 15:
            out.append(("DataEnd", {"data_section_crc": str(p["crc"])}))
        elif op == 7:
            pass          # message indexes are not part of the streamed expectation
    return [(t, tuple(sorted(f.items()))) for t, f in out]


@prop("C17")
def check_c17(rep, tier, seed, wd, replay):
    import hashlib
    import json as js
    import subprocess
    vs = cf.vectors(cm.REPO)
    # build the two tools from the working tree (go.work workspace; no -mod flag inside the workspace)
    env = dict(os.environ, GOPROXY="off", GOSUMDB="off", GOTOOLCHAIN="local")
    env.pop("GOFLAGS", None)
    tools = {}
    for t in ("test-write-conformance", "test-read-conformance"):
        outp = os.path.join(wd, t)
        p = cm.run(["go", "build", "-o", outp, "."], cwd=os.path.join(cm.REPO, "go/conformance", t), env=env, check=False)
        if p.returncode != 0:
            rep.add_violation("harness-build", "%s does not build: %s" % (t, p.stdout.decode()[-500:]), [], failing_input=False)
            return summarize(rep, 1, 2, "tool build failed", [t]), []
        tools[t] = outp
    st = {"vectors": len(vs), "padded": 0, "reference_pinned": 0, "writer_pinned": 0, "streamed_ok": 0, "indexed_ok": 0, "model_writer_ok": 0, "model_lexer_ok": 0}
    bins = {}
    for v in vs:
        data = cf.reference_bytes(v)
        bins[v["name"]] = data
        if "pad" in v["features"]:
            st["padded"] += 1
        if cf.pinned(v, data):
            st["reference_pinned"] += 1
        else:
            rep.add_violation("oracle", "vector %s: the reference encoding no longer matches the pinned sha256/size of the expectation's binary" % v["name"], [v["json"]], failing_input=False)

    def run_tool(args):
        try:
            p = subprocess.run(args, stdout=subprocess.PIPE, stderr=subprocess.PIPE, timeout=60)
            return p.returncode, p.stdout, p.stderr.decode(errors="replace")[-300:]
        except subprocess.TimeoutExpired:
            return -1, b"", "timeout"
    from concurrent.futures import ThreadPoolExecutor
    # ---- write tool on the unpadded vectors
    unp = [v for v in vs if "pad" not in v["features"]]
    with ThreadPoolExecutor(max_workers=cm.NPROC) as ex:
        wres = list(ex.map(lambda v: run_tool([tools["test-write-conformance"], v["json"]]), unp))
    for v, (rc, outb, err) in zip(unp, wres):
        if rc == 0 and cf.pinned(v, outb):
            st["writer_pinned"] += 1
        else:
            ref = bins[v["name"]]
            n = next((i for i in range(min(len(ref), len(outb))) if ref[i] != outb[i]), min(len(ref), len(outb)))
            rep.add_violation("oracle", "vector %s: test-write-conformance output (rc=%s, %d bytes) differs from the expected binary at offset %d %s" % (v["name"], rc, len(outb), n, err),
                              ["# go run ./go/conformance/test-write-conformance %s" % v["json"]])
    # ---- read tool, streamed (all) and indexed (supported)
    paths = {}
    for v in vs:
        pth = os.path.join(wd, v["name"] + ".mcap")
        open(pth, "wb").write(bins[v["name"]])
        paths[v["name"]] = pth
    with ThreadPoolExecutor(max_workers=cm.NPROC) as ex:
        sres = list(ex.map(lambda v: run_tool([tools["test-read-conformance"], paths[v["name"]], "streamed"]), vs))
        ivs = [v for v in vs if cf.indexed_supported(v)]
        ires = list(ex.map(lambda v: run_tool([tools["test-read-conformance"], paths[v["name"]], "indexed"]), ivs))
    for v, (rc, outb, err) in zip(vs, sres):
        ok = False
        if rc == 0:
            try:
                got = cf.norm_records(js.loads(outb)["records"])
                ok = got == cf.norm_records(v["records"])
            except (ValueError, KeyError):
                ok = False
        if ok:
            st["streamed_ok"] += 1
        else:
            rep.add_violation("oracle", "vector %s: test-read-conformance streamed output differs from the expectation (rc=%s %s)" % (v["name"], rc, err),
                              ["# test-read-conformance <%s.mcap regenerated by tools/conformance.py> streamed" % v["name"]])
    for v, (rc, outb, err) in zip(ivs, ires):
        ok = False
        if rc == 0:
            try:
                d = js.loads(outb)
                got = {k: cf.norm_records(d.get(k) or []) for k in ("schemas", "channels", "messages", "statistics")}
                ok = got == cf.indexed_expectation(v)
            except (ValueError, KeyError):
                ok = False
        if ok:
            st["indexed_ok"] += 1
        else:
            rep.add_violation("oracle", "vector %s: test-read-conformance indexed output differs from the derived expectation (rc=%s %s)" % (v["name"], rc, err),
                              ["# test-read-conformance <%s.mcap> indexed" % v["name"]])
    # ---- model ties: writer model reproduces the pinned bytes; lexer model reproduces the expected record stream
    wcases = []
    for v in unp:
        o, calls = cf.writer_script(v)
        wcases.append({"id": "c17w_" + v["name"], "o": o, "calls": calls, "v": v})
    go_w, model_w, crashed = cw.run_go_and_model(wcases, wd, "c17w")
    for c in wcases:
        m = model_w.get(c["id"])
        g = go_w.get(c["id"])
        if m and cf.pinned(c["v"], b"".join(m["writes"])):
            st["model_writer_ok"] += 1
        else:
            rep.add_violation("correspondence", "vector %s: the writer model does not reproduce the pinned bytes" % c["v"]["name"], cw.case_replay(c), failing_input=False)
        if g and m and cw.diff_obs(g, m, ["new", "calls", "writes"]):
            rep.add_violation("correspondence", "vector %s: library and writer model disagree: %s" % (c["v"]["name"], cw.diff_obs(g, m, ["new", "calls", "writes"])), cw.case_replay(c), failing_input=False)
    lcases = [{"id": "c17l_" + v["name"], "file": bins[v["name"]], "lopts": {"cb": "full", "acrc": 1}, "v": v} for v in vs]
    go_l, model_l, crashed2 = cl.run_lex(lcases, wd, "c17l")
    for c in lcases:
        g, m = go_l.get(c["id"]), model_l.get(c["id"])
        d = cl.diff_lex(g, m)
        if d:
            rep.add_violation("correspondence", "vector %s: lexer and model disagree: %s" % (c["v"]["name"], d), cl.lex_replay(c), failing_input=False)
        if m and records_from_events(m["events"]) == cf.norm_records(c["v"]["records"]):
            st["model_lexer_ok"] += 1
        else:
            rep.add_violation("correspondence", "vector %s: the lexer model's record stream differs from the expectation" % c["v"]["name"], cl.lex_replay(c), failing_input=False)
    cov = summarize(rep, len(vs) * 2 + len(unp) + len(ivs), len(vs),
                    "all 416 conformance vectors (6 inputs x admissible feature combinations, 208 padded): the reference encoder (port of generate-inputs.ts) regenerates every binary and each must match the sha256+size pinned in the repository's LFS pointer; test-write-conformance built from the tree must emit exactly those bytes for the 208 unpadded vectors; test-read-conformance streamed must print exactly the expected record stream for all 416 and the derived expectation in indexed mode for the supported ones; the writer model must reproduce the pinned bytes and the lexer model the expected record stream",
                    [v["name"] for v in vs[:3]], dict(st, exhaustive=True, indexed_vectors=len(ivs)))
    return cov, ["sha256/size pins come from the Git-LFS pointers stored in place of the .mcap binaries"]


# ------------------------------------------------------------------ C16: Go <-> Python
def lenient_index_offsets(data):
    """offsets listed by the attachment and metadata index records of the summary section, found through the footer alone
    (no validation: this is what a reader following the indexes would use)"""
    import struct
    aoffs, moffs = [], []
    try:
        if len(data) < 8 + 29 + 8:
            return aoffs, moffs
        ss = struct.unpack_from("<Q", data, len(data) - 8 - 20)[0]
        p = ss
        while ss and p + 9 <= len(data) - 8:
            op = data[p]
            n = struct.unpack_from("<Q", data, p + 1)[0]
            body = data[p + 9:p + 9 + n]
            if op == 0x0A and n >= 8:
                aoffs.append(struct.unpack_from("<Q", body, 0)[0])
            elif op == 0x0D and n >= 8:
                moffs.append(struct.unpack_from("<Q", body, 0)[0])
            elif op == 0x02:
                break
            p += 9 + n
    except struct.error:
        pass
    return aoffs, moffs


PY_HARNESS = os.path.join(cm.VERIF, "tools", "py_harness.py")


def py_read_ops(r, topics, times):
    """the reader operations of one pyread case; the last ones carry a random topic/time filter"""
    ops = ["op stream skip=0 emit=0 validate=1", "op stream skip=0 emit=1 validate=0",
           "op ns_messages validate=1 order=log reverse=0", "op ns_messages validate=1 order=log reverse=1",
           "op ns_messages validate=1 order=file reverse=0", "op ns_header validate=1", "op ns_summary validate=1",
           "op ns_attachments validate=1", "op ns_metadata validate=1",
           "op sk_messages validate=1 order=log reverse=0", "op sk_messages validate=1 order=log reverse=1",
           "op sk_messages validate=1 order=file reverse=0", "op sk_header", "op sk_summary", "op sk_attachments", "op sk_metadata"]
    for _ in range(2):
        flt = []
        if topics and r.random() < 0.7:
            flt.append("topics=" + ",".join(cm.hx(t) for t in r.sample(topics, r.randint(1, len(topics))) if t))
        if times and r.random() < 0.7:
            a, b = r.choice(times), r.choice(times)
            if r.random() < 0.7:
                flt.append("start=%d" % min(a, b))
            if r.random() < 0.7:
                flt.append("end=%d" % (max(a, b) + r.choice([0, 1])))
        flt = [x for x in flt if x != "topics="]
        rd = r.choice(["sk_messages", "sk_messages", "ns_messages"])
        ops.append("op %s validate=1 order=%s reverse=%d %s" % (rd, r.choice(["log", "log", "file"]), r.random() < 0.4, " ".join(flt)))
    return [o.rstrip() for o in ops if not ("order=file reverse=1" in o and o.startswith("op sk_"))] + ["op sk_messages validate=0 order=file reverse=1"]


def py_corr(rep, cases, wd, tag, mode, replay_of=None):
    """run the real Python package and the Py.v model on the same script; report disagreements.
    cases: list of (id, [lines]).  Returns (python outputs, model outputs, number of disagreements)."""
    env = dict(os.environ, VERIF_REPO=cm.REPO)
    py, crashed1 = cm.run_sharded(PY_HARNESS, mode, cases, wd, tag + "py", prefix=[sys.executable], extra_env=env, timeout=1200)
    mo, crashed2 = cm.run_sharded(os.path.join(cm.BUILD, "model"), mode, cases, wd, tag + "mo", timeout=1200)
    for cmd, rc, err in crashed1 + crashed2:
        rep.add_violation("executor-crash", "%s exited %s: %s" % (" ".join(cmd[-3:]), rc, err[-600:]), [], failing_input=False)
    nd = 0
    for cid, lines in cases:
        a, b = py.get(cid), mo.get(cid)
        if a is None or b is None:
            rep.add_violation("missing-output", "no output for case %s (python %s, model %s)" % (cid, a is not None, b is not None),
                              ["case " + cid] + lines + ["end"], failing_input=False)
            continue
        if a != b:
            nd += 1
            k = next((i for i in range(min(len(a), len(b))) if a[i] != b[i]), min(len(a), len(b)))
            op = next((x for x in reversed(a[:k + 1]) if x.startswith("op ")), "")
            rep.add_violation("correspondence", "case %s: the Python package and its model (Py.v) differ at output line %d (%s): python %r, model %r"
                              % (cid, k, op, (a[k] if k < len(a) else "<end>")[:300], (b[k] if k < len(b) else "<end>")[:300]),
                              ["# mode " + mode, "case " + cid] + lines + ["end"], failing_input=False)
    return py, mo, nd


def py_run(mode, d):
    import subprocess
    import json as js
    env = dict(os.environ, VERIF_REPO=cm.REPO)
    p = subprocess.run([sys.executable, os.path.join(cm.VERIF, "tools", "py_interop.py"), mode, d], cwd=d, stdout=subprocess.PIPE, stderr=subprocess.PIPE, env=env, timeout=900)
    out = []
    for line in p.stdout.decode().splitlines():
        try:
            out.append(js.loads(line))
        except ValueError:
            pass
    return out, p.returncode, p.stderr.decode(errors="replace")[-500:]


@prop("C16")
def check_c16(rep, tier, seed, wd, replay):
    import json as js
    import random
    r = random.Random(seed * 1000 + 16)
    n = 300 if tier == "quick" else 3000
    # ---------------- Go -> Python
    g1 = gw.Gen(seed * 1000 + 16, utf8_only=True)
    gcases = []
    for i in range(n):
        o = g1.wopts(comp="", custom=False, skipmagic=False)
        o["chunksize"] = g1.r.choice([1, 7, 64, 64, 200, 1048576])
        gcases.append({"id": "c16g%d" % i, "o": o, "calls": g1.calls(2, 20, legal=True)})
    # the Go writer against its model on the same workloads (the files the Python readers get are the model's bytes)
    go_w, _, _, _, nd0 = writer_corr(rep, gcases, wd, ["new", "calls", "writes"], set(), tag="c16w")
    files = []
    for c in gcases:
        g = go_w.get(c["id"])
        if g and g["new"] == "ok" and all(x == "ok" for x in g["calls"]):
            c["file"] = b"".join(g["writes"])
            c["g"] = g
            files.append(c)
    gdir = os.path.join(wd, "go2py")
    os.makedirs(gdir)
    for f in files:
        open(os.path.join(gdir, f["id"] + ".mcap"), "wb").write(f["file"])
    pyres, rc, err = py_run("read", gdir)
    if rc != 0:
        rep.add_violation("executor-crash", "python reader script failed: %s" % err, [], failing_input=False)
    byname = {x["file"][:-5]: x for x in pyres}
    lib = cm.lib_id()
    st = {"go_files": len(files), "py_stream_ok": 0, "py_seek_compared": 0, "py_files": 0, "go_reads_of_py_files": 0}
    for f in files:
        rp = cw.case_replay({"id": f["id"], "o": f["o"], "calls": f["calls"]})
        x = byname.get(f["id"])
        if x is None:
            rep.add_violation("oracle", "case %s: no result from the Python readers" % f["id"], rp)
            continue
        want = expected_lex_content(f, lib)
        U = lambda b: b.decode("utf-8")
        schemas = {c[1]: c for c in f["calls"] if c[0] == "S"}
        channels = {}
        wmsgs = []
        for c in f["calls"]:
            if c[0] == "C":
                channels.setdefault(c[1], c)
            if c[0] == "M":
                ch = channels[c[1]]
                sc = schemas.get(ch[2])
                wmsgs.append({"schema": None if ch[2] == 0 else [sc[1], U(sc[2]), U(sc[3]), sc[4].hex()],
                              "channel": [ch[1], ch[2], U(ch[3]), U(ch[4]), sorted([U(k), U(v)] for k, v in ch[5])],
                              "message": [c[1], c[2], c[3], c[4], c[5].hex()]})
        watt = [[a[0], a[1], U(a[2]), U(a[3]), a[4].hex()] for a in want["attachments"]]
        wmd = [[U(m[0]), sorted([U(k), U(v)] for k, v in m[1])] for m in want["metadata"]]
        o = f["o"]
        seek_ok = (not o["skipci"] and not o["skiprch"] and not o["skiprsh"] and o["chunked"] and not o["skipai"] and not o["skipmdi"])
        for rname in ("stream", "seek"):
            y = x.get(rname, {})
            if rname == "seek" and not seek_ok:
                # the seeking reader's message/attachment/metadata iteration relies on indexes this file does not carry; its
                # summary must still be found
                if not o["skipstats"] and "error" not in y and "statistics" not in y:
                    rep.add_violation("oracle", "case %s: Python seeking reader: get_summary() has no statistics although the Go writer wrote a statistics record" % f["id"], rp)
                continue
            probs = []
            if "error" in y:
                probs.append("Python %s reader failed on a Go-written file: %s" % (rname, y["error"]))
            else:
                if y.get("header") != [U(want["header"][0]), U(want["header"][1])]:
                    probs.append("Python %s reader: header differs" % rname)
                if y.get("messages") != wmsgs:
                    probs.append("Python %s reader: messages differ from what Go wrote (%d vs %d)" % (rname, len(y.get("messages", [])), len(wmsgs)))
                if y.get("attachments") != watt:
                    probs.append("Python %s reader: attachments differ" % rname)
                if y.get("metadata") != wmd:
                    probs.append("Python %s reader: metadata differ" % rname)
                # the summary: both Python readers find it through the footer alone, so whatever the Go writer put there must come back
                if not o["skipstats"]:
                    d = decode_written(f)
                    if d:
                        t = mcapspec.true_statistics(d)
                        tv = [t["messages"], t["schemas"], t["channels"], t["attachments"], t["metadata"], t["chunks"], t["start"], t["end"], [list(x2) for x2 in t["counts"]]]
                        if "statistics" not in y:
                            probs.append("Python %s reader: get_summary() has no statistics although the Go writer wrote a statistics record" % rname)
                        elif y["statistics"] != tv:
                            probs.append("Python %s reader: statistics differ from the true aggregates" % rname)
                if rname == "seek":
                    st["py_seek_compared"] += 1
                    ts = [m["message"][2] for m in y.get("log_order", [])]
                    if sorted(ts) != ts or sorted(js.dumps(m) for m in y.get("log_order", [])) != sorted(js.dumps(m) for m in wmsgs):
                        probs.append("Python seeking reader: log-time-ordered read is not a sorted permutation of the written messages")
                else:
                    if not probs:
                        st["py_stream_ok"] += 1
            for p in probs[:2]:
                rep.add_violation("oracle", "case %s: %s" % (f["id"], p), rp)
    # ---------------- Python -> Go
    pdir = os.path.join(wd, "py2go")
    os.makedirs(pdir)
    g0 = gw.Gen(seed * 1000 + 16 + 1, utf8_only=True)
    works = []
    for i in range(n):
        nsch = r.randint(0, 3)
        nch = r.randint(1, 4)
        calls = []
        for s in range(1, nsch + 1):
            calls.append(["S", s, g0.s().decode(), g0.s().decode(), g0.data(big_ok=False).hex()])
        for c in range(1, nch + 1):
            calls.append(["C", c, r.randint(0, nsch), g0.s().decode(), g0.s().decode(), [[k.decode(), v.decode()] for k, v in g0.kv(4)]])
        state = {}
        for _ in range(r.randint(0, 20)):
            x = r.random()
            if x < 0.75:
                t = g0.ts(state); state["last_ts"] = t
                calls.append(["M", r.randint(1, nch), r.choice([0, 1, 2**32 - 1, r.randrange(2**32)]), t, g0.ts({}), g0.data().hex()])
            elif x < 0.88:
                calls.append(["A", g0.ts({}), g0.ts({}), g0.s().decode(), g0.s().decode(), g0.data().hex()])
            else:
                calls.append(["D", g0.s().decode(), [[k.decode(), v.decode()] for k, v in g0.kv(4)]])
        opts = {"chunk_size": r.choice([1, 64, 300, 1048576]), "index": {k: r.random() < 0.8 for k in ("attachment", "chunk", "message", "metadata")},
                "repeat_channels": r.random() < 0.8, "repeat_schemas": r.random() < 0.8, "use_chunking": r.random() < 0.8,
                "use_statistics": r.random() < 0.8, "use_summary_offsets": r.random() < 0.8, "enable_crcs": r.random() < 0.8, "enable_data_crcs": r.random() < 0.5}
        w = {"profile": g0.s().decode(), "library": g0.s().decode(), "opts": opts, "calls": calls}
        js.dump(w, open(os.path.join(pdir, "c16p%d.json" % i), "w"))
        works.append(("c16p%d" % i, w))
    wres, rc, err = py_run("write", pdir)
    pfiles = []
    for name, w in works:
        pth = os.path.join(pdir, name + ".mcap")
        if os.path.exists(pth):
            pfiles.append({"id": name, "file": open(pth, "rb").read(), "w": w})
    st["py_files"] = len(pfiles)
    lcases = [{"id": f["id"] + "_lex", "file": f["file"], "lopts": {"cb": "full", "validate": 1, "acrc": 1}, "base": f} for f in pfiles]
    rcases = []
    for f in pfiles:
        rcases.append({"id": f["id"] + "_scan", "file": f["file"], "ropts": ["index:0"], "ops": [["messages"]], "base": f})
        rcases.append({"id": f["id"] + "_idx", "file": f["file"], "ropts": [], "ops": [["info"], ["messages"]], "base": f})
        rcases.append({"id": f["id"] + "_log", "file": f["file"], "ropts": ["order:log"], "ops": [["messages"]], "base": f})
        # random access through the index entries Python wrote (offsets taken from the summary as the independent decoder sees it)
        aoffs, moffs = lenient_index_offsets(f["file"])
        ops = [["getatt", str(x)] for x in aoffs] + [["getmd", str(x)] for x in moffs]
        if ops:
            rcases.append({"id": f["id"] + "_ra", "file": f["file"], "ropts": [], "ops": ops, "base": f, "natt": len(aoffs), "nmd": len(moffs)})
    go_l, model_l, nd1 = lex_corr(rep, lcases, wd, "c16l")
    go_r, model_r, nd2 = read_corr(rep, rcases, wd, "c16r")

    def py_expected(w):
        E = lambda s: s.encode()
        return {"header": (E(w["profile"]), E(w["library"])),
                "schemas": [(c[1], E(c[2]), E(c[3]), bytes.fromhex(c[4])) for c in w["calls"] if c[0] == "S"],
                "channels": [(c[1], c[2], E(c[3]), E(c[4]), tuple(sorted((E(k), E(v)) for k, v in c[5]))) for c in w["calls"] if c[0] == "C"],
                "messages": [(c[1], c[2], c[3], c[4], bytes.fromhex(c[5])) for c in w["calls"] if c[0] == "M"],
                "attachments": [(c[1], c[2], E(c[3]), E(c[4]), bytes.fromhex(c[5]), True) for c in w["calls"] if c[0] == "A"],
                "metadata": [(E(c[1]), tuple(sorted((E(k), E(v)) for k, v in c[2]))) for c in w["calls"] if c[0] == "D"]}
    for c in lcases:
        g = go_l.get(c["id"])
        probs = []
        w = c["base"]["w"]
        if g:
            if g["panic"]:
                probs.append("Go lexer crashed on a Python-written file: %s" % g["panic"])
            elif g["new"] != "ok" or g["end"] != "err:eof":
                probs.append("Go lexer rejects a Python-written file: new=%s end=%s" % (g["new"], g["end"]))
            else:
                st["go_reads_of_py_files"] += 1
                got = lex_content(g["events"])
                want = py_expected(w)
                for k in ("header", "messages", "attachments", "metadata"):
                    if got[k] != want[k]:
                        probs.append("Go lexer: %s differ from what Python wrote" % k)
                # the Python writer may leave out records of channels/schemas that no message uses:
                # everything read must have been written, and everything a message needs must be read
                allrec = [tok_parsed(ev) for ev in g["events"]]
                for op2, p2 in allrec:
                    if isinstance(p2, str):
                        probs.append("Go lexer returned a record (opcode %s) of a Python-written file that does not parse per the specification: %s" % (op2, p2[:120]))
                allrec = [(op2, p2) for op2, p2 in allrec if not isinstance(p2, str)]
                gs = set((p["id"], p["name"], p["encoding"], p["data"]) for op, p in allrec if op == 3)
                gc = set((p["id"], p["schema_id"], p["topic"], p["message_encoding"], tuple(sorted(p["metadata"]))) for op, p in allrec if op == 4)
                used_c = set(m[0] for m in want["messages"])
                used_s = set(c2[1] for c2 in want["channels"] if c2[0] in used_c and c2[1] != 0)
                if not gs <= set(want["schemas"]) or not gc <= set(want["channels"]):
                    probs.append("Go lexer returned a schema/channel that Python did not write")
                if not set(c2 for c2 in want["channels"] if c2[0] in used_c) <= gc or not set(s2 for s2 in want["schemas"] if s2[0] in used_s) <= gs:
                    probs.append("Go lexer did not return a schema/channel that the written messages use")
        rpl = ["# python workload: " + js.dumps(w)[:2000]] + cl.lex_replay(c)
        for p in probs[:2]:
            rep.add_violation("oracle", "case %s: %s" % (c["id"], p), rpl)
        if c.get("_disagree"):
            rep.add_violation("correspondence", "case %s: %s" % (c["id"], c["_disagree"]), rpl, failing_input=bool(probs))
    for c in rcases:
        g = go_r.get(c["id"])
        probs = []
        w = c["base"]["w"]
        if g and g["ops"] and c["id"].endswith("_ra"):
            # every attachment / metadata index entry of a Python-written file leads the Go reader to the record Python was given
            wa = [c2 for c2 in w["calls"] if c2[0] == "A"]
            wm = [c2 for c2 in w["calls"] if c2[0] == "D"]
            for k2, o2 in enumerate(g["ops"]):
                h2 = o2["head"] or ""
                if k2 < c["natt"]:
                    a2 = wa[k2] if k2 < len(wa) else None
                    want2 = None if a2 is None else "getatt ok %d %d %s %s %d %s ok" % (a2[1], a2[2], cm.hx(a2[3].encode()), cm.hx(a2[4].encode()), len(bytes.fromhex(a2[5])), a2[5] or "-")
                    if want2 is None or not h2.startswith(want2) or h2.split(" ")[-1] != h2.split(" ")[-2]:
                        probs.append("attachment index entry %d of a Python-written file: Go GetAttachmentReader gives %s, Python was given %s" % (k2, h2[:90], (want2 or "nothing")[:90]))
                else:
                    m2 = wm[k2 - c["natt"]] if k2 - c["natt"] < len(wm) else None
                    want2 = None if m2 is None else "getmd ok %s %s" % (cm.hx(m2[1].encode()), ",".join("%s:%s" % (k3.encode().hex(), v3.encode().hex()) for k3, v3 in sorted(dict(m2[2]).items())) or "-")
                    if want2 is None or h2 != want2:
                        probs.append("metadata index entry %d of a Python-written file: Go GetMetadata gives %s, Python was given %s" % (k2 - c["natt"], h2[:90], (want2 or "nothing")[:90]))
            report_case(rep, c, probs[:2], cr.read_replay)
            continue
        if g and g["ops"] and c["id"].endswith("_idx") and w["opts"]["use_statistics"]:
            # Go's Info of a Python-written file: the statistics Python wrote are the true aggregates of what it was given
            info = g["ops"][0]
            stl = [l for l in info["info"] if l.startswith("stats ")]
            if (info["head"] or "").startswith("info ok"):
                calls = w["calls"]
                msgs = [c2 for c2 in calls if c2[0] == "M"]
                counts = {}
                for m2 in msgs:
                    counts[m2[1]] = counts.get(m2[1], 0) + 1
                d2 = None
                try:
                    d2 = mcapspec.decode(c["base"]["file"], None, skip_magic=False)
                except mcapspec.SpecError:
                    pass
                want = [len(msgs), sum(1 for c2 in calls if c2[0] == "S"), sum(1 for c2 in calls if c2[0] == "C"), sum(1 for c2 in calls if c2[0] == "A"),
                        sum(1 for c2 in calls if c2[0] == "D"), len(d2["chunks"]) if d2 else None, min([m2[3] for m2 in msgs] or [0]), max([m2[3] for m2 in msgs] or [0]),
                        ",".join("%d:%d" % kv2 for kv2 in sorted(counts.items())) or "-"]
                if not stl:
                    probs.append("Go Info of a Python-written file has no statistics although Python wrote them")
                else:
                    got = stl[0].split(" ")[1:]
                    for k2, (a2, b2) in enumerate(zip(got, want)):
                        if b2 is not None and str(a2) != str(b2):
                            probs.append("Go Info of a Python-written file: statistics field %d is %s, the workload has %s (%s)" % (k2, a2, b2, stl[0]))
                            break
        if g and g["ops"]:
            o = g["ops"][-1]
            if o["panic"]:
                probs.append("Go reader crashed on a Python-written file: %s" % o["panic"])
            elif (o["head"] or "").startswith("messages ok") and o["end"] == "err:eof":
                want = py_expected(w)["messages"]
                got = [parse_msg_line(l) for l in o["msgs"]]
                gk = [(m["chan"], m["seq"], m["log"]) for m in got]
                wk = [(m[0], m[1], m[2]) for m in want]
                if c["id"].endswith("_log"):
                    if sorted(gk) != sorted(wk) or [m["log"] for m in got] != sorted(m["log"] for m in got):
                        probs.append("Go time-ordered read of a Python-written file is not a sorted permutation of the messages")
                elif gk != wk:
                    probs.append("Go %s read of a Python-written file returns %d messages, Python wrote %d (sequence differs)" % (c["id"].split("_")[-1], len(gk), len(wk)))
            elif (o["head"] or "").startswith("messages ok"):
                po = w["opts"]
                indexable = po["repeat_schemas"] and po["repeat_channels"] and po["index"]["chunk"] and po["use_chunking"]
                if c["id"].endswith("_scan") or indexable:
                    probs.append("Go read of a Python-written file ended with %s" % o["end"])
        report_case(rep, c, probs[:2], cr.read_replay)
    # ---------------- the Python package against its model (Py.v): readers on Go-written, Python-written, reference-encoder
    # and damaged files; the writer on the Python workloads (byte for byte)
    pcases = []
    pyin = {"go_written": 0, "py_written": 0, "arrangements": 0, "damaged": 0}
    for f in files:
        topics = sorted(set(c[3] for c in f["calls"] if c[0] == "C"))
        times = sorted(set(c[3] for c in f["calls"] if c[0] == "M"))
        pcases.append((f["id"] + "_py", ["file " + cm.hx(f["file"])] + py_read_ops(r, topics, times)))
        pyin["go_written"] += 1
    for f in pfiles:
        topics = sorted(set(c[3].encode() for c in f["w"]["calls"] if c[0] == "C"))
        times = sorted(set(c[3] for c in f["w"]["calls"] if c[0] == "M"))
        pcases.append((f["id"] + "_py", ["file " + cm.hx(f["file"])] + py_read_ops(r, topics, times)))
        pyin["py_written"] += 1
    for i in range(60 if tier == "quick" else 600):
        nchunks = r.randint(1, 7)
        if r.random() < 0.5:
            ranges = []
            for k in range(nchunks):
                lo = r.randint(0, 30)
                ranges.append((lo, lo + r.randint(0, 12)))
            L = arrangement(r, nchunks, 4, None, overlap=ranges, empty_channel=r.random() < 0.5)
        else:
            L = arrangement(r, nchunks, 4, r.choice([[0, 1, 2, 3], [5, 9, 2**40, 2**64 - 1], list(range(12))]))
        data, _ = mcapenc.build(L)
        times = sorted(set(it[1]["log_time"] for ch in L["items"] if ch[0] == "chunk" for it in ch[1]))
        pcases.append(("c16arr%d_py" % i, ["file " + cm.hx(data)] + py_read_ops(r, list(TOPICS), times)))
        pyin["arrangements"] += 1
    base = [f["file"] for f in files[:6]] + [f["file"] for f in pfiles[:6]]
    for bi, b in enumerate(base):
        for j in range(16 if tier == "quick" else 80):
            if j % 2 == 0:
                d = b[:r.randrange(len(b) + 1)]
            else:
                d = bytearray(b)
                for _ in range(r.randint(1, 3)):
                    d[r.randrange(len(d))] = r.choice([0, 1, 0xff, r.randrange(256)])
                d = bytes(d)
            pcases.append(("c16dmg%d_%d_py" % (bi, j), ["file " + cm.hx(d), "op stream skip=0 emit=0 validate=1", "op ns_messages validate=1 order=file reverse=0",
                                                       "op sk_messages validate=1 order=log reverse=0", "op sk_summary", "op sk_attachments", "op sk_metadata"]))
            pyin["damaged"] += 1
    pyo, _, nd3 = py_corr(rep, pcases, wd, "c16pr", "pyread")
    # oracle on the Python package's own output (valid files only): every filtered / ordered read is the unfiltered file-order
    # read of the same file, filtered by topic and [start, end) and put in the requested order
    def py_blocks(lines):
        out, cur = [], None
        for l in lines:
            if l.startswith("op "):
                cur = [l, [], None]
                out.append(cur)
            elif cur is not None and l.startswith("triple "):
                cur[1].append(l)
            elif cur is not None and l.startswith("end "):
                cur[2] = l
        return out
    def tkey(t):
        m = re.search(r"\| channel id=\d+ schema=\d+ topic=(\S+) .*\| message chan=\d+ seq=\d+ log=(\d+) ", t)
        return (m.group(1), int(m.group(2))) if m else (None, None)
    npyo = 0
    for cid, lines in pcases:
        if cid.startswith("c16dmg"):
            continue
        blocks = py_blocks(pyo.get(cid, []))
        ref = next((b for b in blocks if b[0] == "op ns_messages validate=1 order=file reverse=0"), None)
        if ref is None or ref[2] != "end stop":
            continue
        for op, triples, end in blocks:
            f = op.split(" ")
            if f[1] not in ("ns_messages", "sk_messages") or end != "end stop":
                continue
            o = dict(x.split("=", 1) for x in f[2:] if "=" in x)
            topics = None if "topics" not in o else set(o["topics"].split(","))
            lo = int(o["start"]) if "start" in o else None
            hi = int(o["end"]) if "end" in o else None
            want = [t for t in ref[1] if (topics is None or (tkey(t)[0] if tkey(t)[0] != "-" else "") in topics or tkey(t)[0] in topics)
                    and (lo is None or tkey(t)[1] >= lo) and (hi is None or tkey(t)[1] < hi)]
            npyo += 1
            if sorted(triples) != sorted(want):
                rep.add_violation("oracle", "case %s: Python %s returned %d messages, the unfiltered file-order read filtered the same way has %d (%s)"
                                  % (cid, f[1], len(triples), len(want), op), ["# mode pyread", "case " + cid] + lines + ["end"])
                continue
            if o.get("order", "log") == "log":
                ts = [tkey(t)[1] for t in triples]
                desc = o.get("reverse") == "1" and (f[1] == "ns_messages" or any(l2.startswith("sk ") for l2 in pyo.get(cid, [])))
                if ts != sorted(ts, reverse=desc):
                    rep.add_violation("oracle", "case %s: Python %s log-time read is not in %s log-time order (%s)" % (cid, f[1], "descending" if desc else "ascending", op),
                                      ["# mode pyread", "case " + cid] + lines + ["end"])
    st["py_filter_order_checks"] = npyo
    # oracle: the Python package reads a Python-written file as what the writer was given (the Go lexer is held to the same
    # expectation above, so this is "both implementations read the file identically"): metadata records and the metadata of
    # the channels that were written, from the streaming read with CRC validation
    def kvset(txt):
        return tuple(sorted(tuple(cm.unhx(x) for x in item.split(":", 1)) for item in txt.split(","))) if txt != "-" else ()
    npyw = 0
    for f in pfiles:
        blocks = pyo.get(f["id"] + "_py", [])
        stream, on = [], False
        for l in blocks:
            if l.startswith("op "):
                on = l.startswith("op stream skip=0 emit=0 validate=1")
                continue
            if on:
                stream.append(l)
        if not stream or not any(l.startswith("end stop") for l in stream):
            continue
        want = py_expected(f["w"])
        gotmd = []
        for l in stream:
            m = re.match(r"(?:rec )?metadata name=(\S+) meta=(\S+)", l)
            if m:
                gotmd.append((cm.unhx(m.group(1)), kvset(m.group(2))))
        gotch = {}
        for l in stream:
            m = re.match(r"(?:rec )?channel id=(\d+) schema=(\d+) topic=(\S+) menc=(\S+) meta=(\S+)", l)
            if m:
                gotch[int(m.group(1))] = kvset(m.group(5))
        npyw += 1
        probs = []
        if gotmd != want["metadata"]:
            probs.append("Python streaming reader returns metadata records %s of a Python-written file, the writer was given %s" % (str(gotmd)[:150], str(want["metadata"])[:150]))
        for c2 in want["channels"]:
            if c2[0] in gotch and gotch[c2[0]] != c2[4]:
                probs.append("Python streaming reader returns channel %d with metadata %s, the writer was given %s" % (c2[0], str(gotch[c2[0]])[:120], str(c2[4])[:120]))
        for pmsg in probs[:2]:
            rep.add_violation("oracle", "case %s_py: %s" % (f["id"], pmsg), ["# mode pyread", "case " + f["id"] + "_py"] + next(l2 for c3, l2 in pcases if c3 == f["id"] + "_py") + ["end"])
    st["py_reads_of_py_files_checked"] = npyw
    wcases = []
    for name, w in works:
        po = w["opts"]
        lines = ["popts chunk_size=%d idx=%s rc=%d rs=%d chunking=%d stats=%d so=%d crcs=%d dcrcs=%d" % (
            po["chunk_size"], ",".join(k2 for k, k2 in (("attachment", "att"), ("chunk", "chunk"), ("message", "msg"), ("metadata", "md")) if po["index"][k]) or "none",
            po["repeat_channels"], po["repeat_schemas"], po["use_chunking"], po["use_statistics"], po["use_summary_offsets"], po["enable_crcs"], po["enable_data_crcs"]),
            "start profile=%s library=%s" % (cm.hx(w["profile"].encode()), cm.hx(w["library"].encode()))]
        KV = lambda m: ",".join("%s:%s" % (cm.hx(k.encode()), cm.hx(v.encode())) for k, v in dict(m).items()) or "-"
        for c in w["calls"]:
            if c[0] == "S":
                lines.append("schema name=%s enc=%s data=%s" % (cm.hx(c[2].encode()), cm.hx(c[3].encode()), c[4] or "-"))
            elif c[0] == "C":
                lines.append("channel topic=%s menc=%s schema=%d meta=%s" % (cm.hx(c[3].encode()), cm.hx(c[4].encode()), c[2], KV(c[5])))
            elif c[0] == "M":
                lines.append("message chan=%d log=%d pub=%d seq=%d data=%s" % (c[1], c[3], c[4], c[2], c[5] or "-"))
            elif c[0] == "A":
                lines.append("attachment create=%d log=%d name=%s media=%s data=%s" % (c[2], c[1], cm.hx(c[3].encode()), cm.hx(c[4].encode()), c[5] or "-"))
            elif c[0] == "D":
                lines.append("metadata name=%s meta=%s" % (cm.hx(c[1].encode()), KV(c[2])))
        lines.append("finish")
        wcases.append((name + "_pw", lines))
    pyw, _, nd4 = py_corr(rep, wcases, wd, "c16pw", "pywrite")
    byid = {f["id"]: f for f in pfiles}
    for name, w in works:
        got = pyw.get(name + "_pw")
        f = byid.get(name)
        if got and f and got != ["out " + cm.hx(f["file"])]:
            rep.add_violation("harness", "case %s: the two Python writer drivers produced different files" % name, [], failing_input=False)
    st["py_model_cases"] = dict(pyin, writer=len(wcases))
    st["py_model_disagreements"] = nd3 + nd4
    cov = summarize(rep, len(files) + len(pfiles) * 4 + len(pcases) + len(wcases), len(files) + len(pfiles),
                    "Go->Python: workloads (valid UTF-8) written by the Go writer in random uncompressed configurations, read by python/mcap NonSeekingReader (always) and SeekingReader (when the summary carries all indexes), CRC validation on: header, messages with channel/schema, attachments, metadata, statistics, log-time order and reverse; Python->Go: workloads written by python/mcap Writer across its options (chunk size, index types, repeated channels/schemas, chunking, statistics, summary offsets, CRCs), decoded by the independent spec decoder and read by the Go lexer, scan, indexed and log-time readers (also compared with the Coq models); Python package vs its Coq model (Py.v): StreamReader, NonSeekingReader and SeekingReader (records, messages in file/log/reverse order with topic and time filters, header, summary, attachments, metadata, CRC validation) on all those files plus reference-encoder arrangements with overlapping chunks and truncated/overwritten files, and python Writer output byte for byte",
                    [cw.case_replay({"id": f["id"], "o": f["o"], "calls": f["calls"]})[:6] for f in files[:1]], dict(st, disagreements=nd1 + nd2))
    return cov, ["zstandard/lz4 Python modules are absent: compressed chunks raise UnsupportedCompressionError in package and model",
                 "the Python model covers records.py, data_stream.py, stream_reader.py, reader.py, _message_queue.py, writer.py, _chunk_builder.py over in-memory streams"]


# ------------------------------------------------------------------ replay
def replay_file(path):
    """Re-execute the cases of a replay file on the current tree: implementation and model side by side."""
    cm.build_coq()
    cm.build_model()
    ok, msg = cm.build_harness()
    if not ok:
        print("harness does not build:", msg[-1000:])
        return 2
    txt = open(path).read()
    cases = []
    cur = None
    forced = None
    for l in txt.splitlines():
        if l.startswith("#"):
            print(l)
            mm = re.match(r"# mode (\w+)", l)
            if mm:
                forced = mm.group(1)
            continue
        if l.startswith("case "):
            cur = [l[5:].strip(), [], forced]
            forced = None
        elif l == "end" and cur:
            cases.append(cur)
            cur = None
        elif cur is not None:
            cur[1].append(l)
    wd = cm.workdir("replay")
    lib = cm.lib_id()
    try:
        for cid, lines, forced in cases:
            heads = set(x.split(" ")[0] for x in lines)
            mode = ("lex" if "lopts" in heads else "read" if "ropts" in heads else "parse" if "parse" in heads else "ros1msg" if "msgdef" in heads
                    else "bag" if "bag" in heads else "db3" if "db" in heads else "pywrite" if "popts" in heads
                    else "pyread" if ("op" in heads and "file" in heads) else "write")
            if forced in ("schemas", "attmem", "writeconc", "pyread", "pywrite"):
                mode = forced
            if mode in ("write", "bag") and not any(x.startswith("lib ") for x in lines):
                lines = lines[:1] + ["lib " + cm.hx(lib)] + lines[1:]
            print("=== case %s (mode %s)" % (cid, mode))
            for exe, name in ((os.path.join(cm.BUILD, "impl"), "implementation"), (os.path.join(cm.BUILD, "model"), "model")):
                if name == "model" and mode in ("attmem", "writeconc"):
                    continue            # runtime measurements: there is no model side
                prefix = None
                if mode.startswith("py") and name == "implementation":
                    exe, prefix = PY_HARNESS, [sys.executable]
                raw, crashed = cm.run_sharded(exe, mode, [(cid, lines)], wd, "rp_" + name, nshards=1, timeout=120, prefix=prefix,
                                              extra_env=dict(os.environ, VERIF_REPO=cm.REPO))
                print("--- %s" % name)
                for l in raw.get(cid, ["<no output>"]):
                    print("   " + (l if len(l) < 400 else l[:400] + "..."))
                for cmd, rc, err in crashed:
                    print("   process exited %s: %s" % (rc, err[-300:]))
    finally:
        shutil.rmtree(wd, ignore_errors=True)
    return 0
