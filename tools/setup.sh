#!/bin/sh
# setup.sh - build the whole framework offline from files on disk: Coq development (full .vo build),
# extracted model + OCaml driver, Go harness (tag verif) against /repo.
set -e
cd "$(dirname "$0")/.."
export GOFLAGS=-mod=mod GOPROXY=off GOSUMDB=off GOTOOLCHAIN=local
python3 - <<'PY'
import sys
sys.path.insert(0, "tools")
import common as cm
ok, out = cm.build_coq()
if not ok:
    sys.stderr.write(out[-3000:])
    sys.exit(1)
cm.build_model()
ok, msg = cm.build_harness()
if not ok:
    sys.stderr.write(msg[-3000:])
    sys.exit(1)
ok, msg = cm.build_harness_race()
if not ok:
    sys.stderr.write(msg[-3000:])
    sys.exit(1)
print("setup ok")
PY
