#!/usr/bin/env python3
"""gen_c17.py - regenerate coq/theories/Vectors_gen.v from tests/conformance/data (all 416 vectors):
   for every unpadded vector the writer calls + tool options + the expected bytes, for every vector the
   binary + the expected lexer events (computed by an independent Python walker from the binary)."""
import os
import struct
import sys

sys.path.insert(0, os.path.dirname(os.path.abspath(__file__)))
import common as cm
import conformance as cf
import mcapspec


def H(b):
    return '(unhex "%s")' % b.hex()


def N(x):
    return "%d" % x


def kvs(items):
    return "[" + "; ".join("(%s, %s)" % (H(k), H(v)) for k, v in items) + "]"


def call_term(c):
    k = c[0]
    if k == "H":
        return "CHeader {| h_profile := %s; h_library := %s |}" % (H(c[1]), H(c[2]))
    if k == "S":
        return "CSchema {| s_id := %s; s_name := %s; s_encoding := %s; s_data := %s |}" % (N(c[1]), H(c[2]), H(c[3]), H(c[4]))
    if k == "C":
        return "CChannel {| c_id := %s; c_schema := %s; c_topic := %s; c_menc := %s; c_meta := %s |}" % (N(c[1]), N(c[2]), H(c[3]), H(c[4]), kvs(c[5]))
    if k == "M":
        return "CMessage {| m_chan := %s; m_seq := %s; m_log := %s; m_pub := %s; m_data := %s |}" % (N(c[1]), N(c[2]), N(c[3]), N(c[4]), H(c[5]))
    if k == "A":
        return ("CAttachment {| a_log := %s; a_create := %s; a_name := %s; a_media := %s; a_size := %s; a_data := [] |} {| as_frags := [%s]; as_fail := false |}"
                % (N(c[1]), N(c[2]), H(c[3]), H(c[4]), N(c[5]), "; ".join(H(f) for f in c[7])))
    if k == "D":
        return "CMetadata {| md_name := %s; md_meta := %s |}" % (H(c[1]), kvs(c[2]))
    if k == "X":
        return "CClose"
    raise ValueError(k)


def events_of(data):
    """independent walker: the event list a de-chunking lexer with an attachment callback must deliver"""
    evs = []

    def walk(buf):
        for off, op, body in mcapspec.frames(buf, 0, "f"):
            if op == 6:
                r = mcapspec.Rd(body, "chunk")
                r.u64(); r.u64(); r.u64(); r.u32(); comp = r.pstr(); n = r.u64()
                assert comp == b""
                walk(r.raw(n))
            elif op == 9:
                r = mcapspec.Rd(body, "att")
                lt, ct, name, media = r.u64(), r.u64(), r.pstr(), r.pstr()
                n = r.u64(); dat = r.raw(n); crc = r.u32()
                fields_len = r.o - 4
                comp = mcapspec.crc32(body[:fields_len])
                evs.append("EvAttachment {| ao_log := %d; ao_create := %d; ao_name := %s; ao_media := %s; ao_size := %d; ao_data := %s; ao_data_end := None; ao_computed := Ok %d; ao_parsed := Ok %d |}"
                           % (lt, ct, H(name), H(media), n, H(dat), comp, crc))
            elif 1 <= op <= 15:
                evs.append("EvToken (byte_of_N %d) %s" % (op, H(body)))
    walk(data[8:-8])
    return evs


def main():
    vs = cf.vectors(cm.REPO)
    out = ["(* Vectors_gen.v - GENERATED on every run by tools/gen_c17.py from /repo/tests/conformance/data (do not edit) *)",
           "From Coq Require Import List NArith ZArith Bool String.", "From Coq.Strings Require Import Byte.",
           "From Mcap Require Import Bytes GoSem Records Writer Lexer C17Support.", "Import ListNotations.", "Open Scope N_scope.", "Open Scope string_scope.", ""]
    wnames, rnames = [], []
    for i, v in enumerate(vs):
        data = cf.reference_bytes(v)
        f = set(v["features"])
        if "pad" not in f:
            o, calls = cf.writer_script(v)
            b = lambda x: "true" if x in f else "false"
            out.append("Definition vw_%d : wopts * list wcall * bytes := (conf_wopts %s, [%s], %s)." % (
                i, " ".join(b(x) for x in ("ch", "mx", "st", "rsh", "rch", "ax", "mdx", "chx", "sum")),
                "; ".join(call_term(c) for c in calls), H(data)))
            wnames.append("vw_%d" % i)
        out.append("Definition vr_%d : bytes * list event := (%s, [%s])." % (i, H(data), "; ".join(events_of(data))))
        rnames.append("vr_%d" % i)
    out.append("Definition vectors_w : list (wopts * list wcall * bytes) := [%s]." % "; ".join(wnames))
    out.append("Definition vectors_r : list (bytes * list event) := [%s]." % "; ".join(rnames))
    out.append("Definition n_vectors_w : nat := %d." % len(wnames))
    out.append("Definition n_vectors_r : nat := %d." % len(rnames))
    text = "\n".join(out) + "\n"
    path = os.path.join(cm.COQ, "theories", "Vectors_gen.v")
    old = open(path).read() if os.path.exists(path) else None
    if old != text:
        open(path, "w").write(text)
    return len(wnames), len(rnames)


if __name__ == "__main__":
    print(main())
