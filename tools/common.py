"""common.py - build steps, executors, evidence, violation reporting shared by all checks."""
import fcntl
import hashlib
import json
import os
import random
import re
import shutil
import subprocess
import sys
import time

VERIF = os.path.dirname(os.path.dirname(os.path.abspath(__file__)))
REPO = os.environ.get("VERIF_REPO", "/repo")
BUILD = os.path.join(VERIF, "build")
WORK = os.path.join(VERIF, ".work")
COQ = os.path.join(VERIF, "coq")
NPROC = os.cpu_count() or 4

GOENV = dict(os.environ, GOFLAGS="-mod=mod", GOPROXY="off", GOSUMDB="off", GOTOOLCHAIN="local",
             CGO_ENABLED="1")

TRUSTED_BASE = [
    "Coq 8.16.1 kernel (coqc, full .vo build; vm_compute used for finite sweeps and witnesses; no native_compute)",
    "no axioms: every property theorem is 'Closed under the global context' (checked from Print Assumptions output on each run)",
    "hand-written Gallina model of go/mcap, go/ros and python/mcap (coq/theories/*.v), tied to /repo by differential execution on each run",
    "translators: tools/gotrans (Go AST) + tools/gen_layout.py regenerate Layout_gen.v (record read/write layouts of parse.go and writer.go), tools/gotrans/decisions.go + tools/gen_decisions.py regenerate DecisionsR_gen.v / DecisionsW_gen.v / DecisionsL_gen.v (41 boolean decisions of the readers, read options, writer and lexer), tools/pytrans.py (Python ast) regenerates PyDecisions_gen.v (22 decisions of python/mcap's readers and message queue), and tools/common.py / tools/gen_c17.py regenerate Consts_gen.v / Vectors_gen.v on each run; LayoutTie.v, DecisionTieR.v, DecisionTieW.v, DecisionTieL.v, PyDecisionTie.v, ConstsTie.v and properties/C17.v are re-proved against them",
    "extraction: ExtrOcamlBasic only (bool, option, unit, list, prod, sumbool, sumor; andb/orb inlined); N, Z, positive, nat, Byte.byte extracted as inductives",
    "hand-written OCaml driver (ocaml/*.ml, zarith for decimal I/O), OCaml 4.13.1",
    "Go harness (harness/*.go, build tag verif; a -race build for C13), tools/py_harness.py driving python/mcap, and Python generators/comparators/oracles (tools/*.py)",
    "third-party codecs (klauspost zstd, pierrec lz4), SQLite, the Go runtime/stdlib and the Python runtime (BytesIO, struct, zlib.crc32, heapq) are oracles or modelled, not verified",
]


class Timer:
    def __init__(self):
        self.t0 = time.time()

    def s(self):
        return round(time.time() - self.t0, 3)


def run(cmd, cwd=None, env=None, timeout=None, check=True, stdin=None, capture=True):
    p = subprocess.run(cmd, cwd=cwd, env=env, timeout=timeout, input=stdin,
                       stdout=subprocess.PIPE if capture else None,
                       stderr=subprocess.STDOUT if capture else None)
    if check and p.returncode != 0:
        sys.stderr.write("command failed: %s\n%s\n" % (cmd, (p.stdout or b"").decode(errors="replace")[-4000:]))
        raise RuntimeError("command failed: %s" % (cmd,))
    return p


class BuildLock:
    def __enter__(self):
        os.makedirs(BUILD, exist_ok=True)
        self.f = open(os.path.join(BUILD, ".lock"), "w")
        fcntl.flock(self.f, fcntl.LOCK_EX)
        return self

    def __exit__(self, *a):
        fcntl.flock(self.f, fcntl.LOCK_UN)
        self.f.close()


def newer(src_paths, dst):
    if not os.path.exists(dst):
        return True
    d = os.path.getmtime(dst)
    return any(os.path.getmtime(s) > d for s in src_paths if os.path.exists(s))


def all_files(d, suffix):
    res = []
    for root, _, files in os.walk(d):
        for f in files:
            if f.endswith(suffix):
                res.append(os.path.join(root, f))
    return res


def gen_consts():
    """Regenerate Consts_gen.v from the Go sources (opcodes, magic, version, token order)."""
    src = open(os.path.join(REPO, "go/mcap/mcap.go")).read()
    ops = re.findall(r"^\s*(Op[A-Za-z]+)\s+OpCode\s*=\s*(0x[0-9A-Fa-f]+)", src, re.M)
    magic = re.search(r"var Magic = \[\]byte\{([^}]*)\}", src).group(1)
    mb = []
    for tok in magic.split(","):
        tok = tok.strip()
        if tok.startswith("0x"):
            mb.append(int(tok, 16))
        elif tok.startswith("'"):
            mb.append(ord(eval(tok)))
    ver = re.search(r'Version\s*=\s*"([^"]*)"', open(os.path.join(REPO, "go/mcap/version.go")).read()).group(1)
    comps = re.findall(r'(Compression[A-Za-z0-9]+)\s+CompressionFormat\s*=\s*"([^"]*)"', src)
    lines = ["(* Consts_gen.v - GENERATED on every run from /repo/go/mcap/{mcap.go,version.go} by tools/common.py *)",
             "From Coq Require Import List NArith.", "From Coq.Strings Require Import Byte.",
             "Import ListNotations.", "Open Scope N_scope.", ""]
    for name, val in ops:
        lines.append("Definition go_%s : N := %d." % (name, int(val, 16)))
    lines.append("Definition go_Magic : list N := [%s]." % "; ".join(str(x) for x in mb))
    lines.append("Definition go_Version : list N := [%s]." % "; ".join(str(x) for x in ver.encode()))
    for name, val in comps:
        lines.append("Definition go_%s : list N := [%s]." % (name, "; ".join(str(x) for x in val.encode())))
    # further constants the model copies: the makeSafe limit, the default chunk size, the ROS primitive list and definition
    # separator, the bag magic, and the Python package's opcode table, magic, record size limit and MAGIC_SIZE
    L = lambda bs: "[%s]" % "; ".join(str(x) for x in bs)
    m = re.search(r"func makeSafe\(n uint64\)[^{]*\{\s*if n < math\.(\w+)", src)
    lines.append("Definition go_makeSafe_limit : N := %d." % {"MaxInt32": 2**31 - 1, "MaxUint32": 2**32 - 1, "MaxInt64": 2**63 - 1}.get(m.group(1) if m else "", 0))
    wsrc = open(os.path.join(REPO, "go/mcap/writer.go")).read()
    m = re.search(r"if opts\.ChunkSize == 0 \{\s*opts\.ChunkSize = ([0-9 *]+)", wsrc)
    lines.append("Definition go_default_chunk_size : N := %d." % (eval(m.group(1)) if m else 0))
    csrc = open(os.path.join(REPO, "go/ros/constants.go")).read()
    prims = re.findall(r'^\s*"(\w+)":\s*true', csrc, re.M)
    lines.append("Definition go_ros_primitives : list (list N) := [%s]." % "; ".join(L(p_.encode()) for p_ in prims))
    m = re.search(r'MessageDefinitionSeparator = \[\]byte\(\s*"((?:[^"\\]|\\.)*)"', csrc)
    lines.append("Definition go_ros_separator : list N := %s." % L(m.group(1).encode().decode("unicode_escape").encode() if m else b""))
    bsrc = open(os.path.join(REPO, "go/ros/bag2mcap.go")).read()
    m = re.search(r'BagMagic\s*=\s*\[\]byte\("((?:[^"\\]|\\.)*)"\)', bsrc)
    lines.append("Definition go_bag_magic : list N := %s." % L(m.group(1).encode().decode("unicode_escape").encode() if m else b""))
    psrc = open(os.path.join(REPO, "python/mcap/mcap/opcode.py")).read()
    pops = re.findall(r"^\s*([A-Z_]+)\s*=\s*(0x[0-9A-Fa-f]+)", psrc, re.M)
    for name, val in pops:
        lines.append("Definition py_op_%s : N := %d." % (name, int(val, 16)))
    ssrc = open(os.path.join(REPO, "python/mcap/mcap/stream_reader.py")).read()
    m = re.search(r"magic != \(([0-9, ]+)\)", ssrc)
    lines.append("Definition py_magic : list N := %s." % L([int(x) for x in m.group(1).split(",")] if m else []))
    m = re.search(r"MAGIC_SIZE = (\d+)", ssrc)
    lines.append("Definition py_magic_size : N := %s." % (m.group(1) if m else "0"))
    m = re.search(r"record_size_limit: Optional\[int\] = \(?([0-9 *]+)\)?", ssrc)
    lines.append("Definition py_record_size_limit : N := %d." % (eval(m.group(1)) if m else 0))
    text = "\n".join(lines) + "\n"
    path = os.path.join(COQ, "theories", "Consts_gen.v")
    old = open(path).read() if os.path.exists(path) else None
    if old != text:
        open(path, "w").write(text)
    return {"ops": dict((n, int(v, 16)) for n, v in ops), "magic": mb, "version": ver}


def lib_id():
    ver = re.search(r'Version\s*=\s*"([^"]*)"', open(os.path.join(REPO, "go/mcap/version.go")).read()).group(1)
    if ver.startswith("v"):
        ver = ver[1:]
    return ("mcap-go/" + ver).encode()


def build_coq(log=None):
    """Full .vo build of the development (no-op when current). Returns (ok, output)."""
    with BuildLock():
        gen_consts()
        try:
            import gen_c17
            gen_c17.main()
        except Exception as e:  # noqa: BLE001
            sys.stderr.write("gen_c17 failed: %s\n" % e)
        try:
            import gen_layout
            gen_layout.main()
        except Exception as e:  # noqa: BLE001
            sys.stderr.write("gen_layout failed: %s\n" % e)
        try:
            import pytrans
            pytrans.main()
        except Exception as e:  # noqa: BLE001
            sys.stderr.write("pytrans failed: %s\n" % e)
        if newer([os.path.join(COQ, "_CoqProject")], os.path.join(COQ, "Makefile")):
            run(["coq_makefile", "-f", "_CoqProject", "-o", "Makefile"], cwd=COQ)
        if not os.path.exists(os.path.join(COQ, "Makefile")):
            run(["coq_makefile", "-f", "_CoqProject", "-o", "Makefile"], cwd=COQ)
        # -k: keep building what does not depend on a file that fails, so that a broken obligation is attributed to
        # the properties that depend on it (see coq_failed_for) and the others are still decided
        p = run(["timeout", "3000", "make", "-k", "-j%d" % NPROC], cwd=COQ, check=False)
        out = p.stdout.decode(errors="replace")
        return p.returncode == 0, out


def coq_deps():
    """file.v -> the .v files it directly requires (from coq_makefile's dependency file)"""
    deps = {}
    path = os.path.join(COQ, ".Makefile.d")
    if not os.path.exists(path):
        return deps
    for line in open(path):
        m = re.match(r"(\S+)\.vo \S+\.glob [^:]*: (.*)$", line)
        if m:
            deps[m.group(1) + ".v"] = [d[:-1] for d in m.group(2).split() if d.endswith(".vo")]
    return deps


def coq_failed_files(coq_out):
    """the .v files whose compilation failed in this build (relative to coq/), or None when that cannot be told"""
    failed = set(re.findall(r"\*\*\* \[[^\]]*?(\S+)\.vo\] Error", coq_out))
    failed |= set(m[:-2] for m in re.findall(r'File "\./([^"]+\.v)", line \d+, characters [^\n]*\n(?:[^\n]*\n){0,12}?Error', coq_out))
    return set(f + ".v" for f in failed) or None


def coq_failed_for(prop, coq_out):
    """Which failed files does this property depend on? Returns a list (empty = its obligations were all built),
    or None when the failure cannot be attributed (then every property counts as broken)."""
    failed = coq_failed_files(coq_out)
    if failed is None:
        return None
    deps = coq_deps()
    seen, todo = set(), [os.path.relpath(f, COQ) for f in prop_files(prop)]
    while todo:
        f = todo.pop()
        if f in seen:
            continue
        seen.add(f)
        if f not in deps and not f.endswith("_gen.v"):
            if not os.path.exists(os.path.join(COQ, f)):
                return None
        todo += deps.get(f, [])
    return sorted(seen & failed)


def build_model():
    """Extract the model to OCaml and compile the driver (when stale)."""
    with BuildLock():
        exe = os.path.join(BUILD, "model")
        srcs = all_files(os.path.join(COQ, "theories"), ".vo") + all_files(os.path.join(VERIF, "ocaml"), ".ml") + \
            [os.path.join(COQ, "extraction", "Extract.v")]
        if not newer(srcs, exe):
            return
        ext = os.path.join(BUILD, "ext")
        shutil.rmtree(ext, ignore_errors=True)
        os.makedirs(ext)
        run(["coqc", "-Q", os.path.join(COQ, "theories"), "Mcap", os.path.join(COQ, "extraction", "Extract.v")], cwd=ext)
        for f in os.listdir(os.path.join(VERIF, "ocaml")):
            if f.endswith(".ml"):
                shutil.copy(os.path.join(VERIF, "ocaml", f), ext)
        order = open(os.path.join(VERIF, "ocaml", "ORDER")).read().split()
        run(["ocamlfind", "ocamlopt", "-O2", "-package", "zarith", "-linkpkg", "-w", "-a",
             "model.mli", "model.ml"] + order + ["-o", exe + ".tmp"], cwd=ext)
        os.replace(exe + ".tmp", exe)


def point_harness_at_repo():
    """the harness module replaces the library modules by the tree under test (REPO; /repo unless VERIF_REPO is set)"""
    gm = os.path.join(VERIF, "harness", "go.mod")
    txt = open(gm).read()
    new = re.sub(r"(replace github.com/foxglove/mcap/go/(mcap|ros) => )\S+", lambda m: m.group(1) + os.path.join(REPO, "go", m.group(2)), txt)
    if new != txt:
        open(gm, "w").write(new)


def build_harness():
    """(Re)build the Go harness against /repo's current working tree with -tags verif."""
    with BuildLock():
        h = os.path.join(VERIF, "harness")
        sums = set()
        for m in ("go/mcap/go.sum", "go/ros/go.sum"):
            p = os.path.join(REPO, m)
            if os.path.exists(p):
                sums.update(open(p).read().splitlines())
        open(os.path.join(h, "go.sum"), "w").write("\n".join(sorted(sums)) + "\n")
        point_harness_at_repo()
        p = run(["go", "build", "-tags", "verif", "-o", os.path.join(BUILD, "impl"), "."], cwd=h, env=GOENV, check=False)
        if p.returncode != 0:
            return False, p.stdout.decode(errors="replace")
        return True, ""


def build_harness_race():
    """The same harness built with the race detector (build/impl_race); the Go build cache makes this cheap after the first time."""
    with BuildLock():
        h = os.path.join(VERIF, "harness")
        point_harness_at_repo()
        p = run(["go", "build", "-race", "-tags", "verif", "-o", os.path.join(BUILD, "impl_race"), "."], cwd=h, env=GOENV, check=False)
        if p.returncode != 0:
            return False, p.stdout.decode(errors="replace")
        return True, ""


def workdir(name):
    d = os.path.join(WORK, "%s.%d" % (name, os.getpid()))
    shutil.rmtree(d, ignore_errors=True)
    os.makedirs(d)
    return d


def parse_obs(text):
    """Parse observation output into {case_id: [lines]} (order preserved)."""
    cases = {}
    order = []
    cur = None
    for line in text.splitlines():
        if line.startswith("case "):
            cur = line[5:].strip()
            cases[cur] = []
            order.append(cur)
        elif line == "end":
            cur = None
        elif cur is not None:
            cases[cur].append(line)
    return cases, order


def _big_stack():
    """the extracted OCaml code recurses on lists (firstn, app, map): give it the largest stack allowed"""
    import resource
    soft, hard = resource.getrlimit(resource.RLIMIT_STACK)
    try:
        resource.setrlimit(resource.RLIMIT_STACK, (hard, hard))
    except (ValueError, OSError):
        pass


def run_sharded(exe, mode, script_lines_by_case, wd, tag, nshards=None, timeout=600, extra_env=None, prefix=None):
    """Run an executor over cases split into shards in parallel. script_lines_by_case: list of (id, [lines])."""
    nshards = nshards or min(NPROC, max(1, len(script_lines_by_case) // 8))
    shards = [[] for _ in range(nshards)]
    for i, c in enumerate(script_lines_by_case):
        shards[i % nshards].append(c)
    procs = []
    for i, sh in enumerate(shards):
        if not sh:
            continue
        path = os.path.join(wd, "%s.%d.script" % (tag, i))
        with open(path, "w") as f:
            for cid, lines in sh:
                f.write("case %s\n" % cid)
                for l in lines:
                    f.write(l + "\n")
                f.write("end\n")
        outp = os.path.join(wd, "%s.%d.out" % (tag, i))
        cmd = (prefix or []) + [exe, mode, path]
        procs.append((subprocess.Popen(cmd, stdout=open(outp, "w"), stderr=subprocess.PIPE,
                                       env=extra_env or os.environ, preexec_fn=_big_stack), outp, cmd))
    allcases = {}
    crashed = []
    for p, outp, cmd in procs:
        try:
            _, err = p.communicate(timeout=timeout)
        except subprocess.TimeoutExpired:
            p.kill()
            _, err = p.communicate()
            err = (err or b"") + b"\nTIMEOUT"
        cases, _ = parse_obs(open(outp, errors="replace").read())
        allcases.update(cases)
        if p.returncode != 0:
            crashed.append((cmd, p.returncode, (err or b"").decode(errors="replace")[-2000:]))
    return allcases, crashed


def hx(b):
    return b.hex() if b else "-"


def unhx(s):
    return b"" if s in ("-", "") else bytes.fromhex(s)


# ---------- known findings ----------
def load_findings():
    res = {"finding": [], "fixed": []}
    p = os.path.join(VERIF, "known_findings.txt")
    if os.path.exists(p):
        for line in open(p):
            line = line.strip()
            if not line or line.startswith("#"):
                continue
            m = re.match(r"(finding|fixed):\s+property=(C\d+)\s+(.*)", line)
            if m:
                kind, prop, rest = m.groups()
                km = re.match(r"key=(\S+)\s+(.*)", rest)
                if kind == "finding" and km:
                    res["finding"].append({"property": prop, "key": km.group(1), "text": km.group(2)})
                else:
                    res["fixed"].append({"property": prop, "text": rest})
    return res


# ---------- result reporting ----------
class Report:
    def __init__(self, prop, tier, seed):
        self.prop = prop
        self.tier = tier
        self.seed = seed
        self.timer = Timer()
        self.violations = []      # list of dicts {kind, detail, replay_lines}
        self.known = []
        self.coverage = {}
        self.assumptions = []
        self.obligations = []     # (name, discharged: bool)
        self.notes = []

    def add_violation(self, kind, detail, replay, key=None, failing_input=True):
        self.violations.append({"kind": kind, "detail": detail, "replay": replay, "key": key,
                                "failing_input": failing_input})

    def finish(self, level, coverage, assumptions):
        findings = [f for f in load_findings()["finding"] if f["property"] == self.prop]
        fresh = []
        known_hit = {}
        for v in self.violations:
            matched = None
            if v["key"]:
                for f in findings:
                    if f["key"] == v["key"]:
                        matched = f
                        break
            if matched:
                known_hit[matched["key"]] = matched
            else:
                fresh.append(v)
        for k, f in known_hit.items():
            print("KNOWN-FINDING: property=%s %s" % (self.prop, f["text"]))
        os.makedirs(os.path.join(VERIF, "evidence"), exist_ok=True)
        ev = {
            "property_id": self.prop, "tier": self.tier, "seed": self.seed, "level": level,
            "coverage": coverage, "assumptions": assumptions, "wall_s": self.timer.s(),
            "violations": len(fresh),
        }
        if known_hit:
            ev["coverage"]["known_findings_reproduced"] = sorted(known_hit)
        try:
            import chk_read
            if chk_read.FUEL_ARTEFACTS:
                ev["coverage"]["model_fuel_exhausted_tolerated"] = len(chk_read.FUEL_ARTEFACTS)
        except Exception:  # noqa: BLE001
            pass
        with open(os.path.join(VERIF, "evidence", "%s.json" % self.prop), "w") as f:
            json.dump(ev, f, indent=1, default=str)
        if fresh:
            rdir = os.path.join(VERIF, "replays")
            os.makedirs(rdir, exist_ok=True)
            any_input = any(v["failing_input"] for v in fresh)
            path = os.path.join(rdir, "%s-%s-%d.replay" % (self.prop, self.tier, self.seed))
            with open(path, "w") as f:
                f.write("# replay for %s (tier=%s seed=%d); %d violation(s)\n" % (self.prop, self.tier, self.seed, len(fresh)))
                # concrete failing inputs first, then what only stopped checking
                for v in sorted(fresh, key=lambda v: not v["failing_input"])[:50]:
                    f.write("## kind=%s failing_input=%s\n" % (v["kind"], v["failing_input"]))
                    f.write("# " + str(v["detail"]).replace("\n", "\n# ") + "\n")
                    for l in v["replay"] or []:
                        f.write(l + "\n")
            tail = "" if any_input else " no-failing-input-found"
            print("VIOLATION property=%s replay=%s%s" % (self.prop, path, tail))
            return 1
        return 0


def prop_files(prop):
    """properties/Cxx.v plus optional companion files properties/Cxx_*.v"""
    d = os.path.join(COQ, "properties")
    listed = set(l.strip() for l in open(os.path.join(COQ, "_CoqProject")))
    res = []
    if os.path.isdir(d):
        for f in sorted(os.listdir(d)):
            if (f == prop + ".v" or (f.startswith(prop + "_") and f.endswith(".v"))) and "properties/" + f in listed:
                res.append(os.path.join(d, f))
    return res


def proof_status(prop, coq_ok, coq_out):
    """Inspect the build of properties/<prop>*.v: obligations (theorems) and whether they are built."""
    theorems = []
    built = coq_ok
    if not coq_ok:
        # some file failed: this property is still decided when nothing it depends on is among the failures
        mine = coq_failed_for(prop, coq_out)
        built = mine is not None and not mine
    files = prop_files(prop)
    for pfile in files:
        theorems += re.findall(r"^\s*(?:Theorem|Corollary)\s+([A-Za-z0-9_']+)", open(pfile).read(), re.M)
        vo = pfile[:-2] + ".vo"
        built = built and os.path.exists(vo) and not newer([pfile], vo)
    if not files:
        built = False
    return theorems, built


def check_assumptions(prop):
    """Re-run coqc on the property files alone to collect Print Assumptions output (cheap)."""
    files = prop_files(prop)
    if not files:
        return None, ""
    ok = True
    closed = 0
    axioms = []
    outs = []
    for pfile in files:
        base = os.path.basename(pfile)[:-2]
        tmpd = os.path.join(WORK, "pa.%s.%d" % (base, os.getpid()))
        os.makedirs(tmpd, exist_ok=True)
        p = run(["coqc", "-Q", "theories", "Mcap", "-Q", "properties", "McapProps", "-o", os.path.join(tmpd, "%s.vo" % base), pfile], cwd=COQ, check=False)
        out = p.stdout.decode(errors="replace")
        shutil.rmtree(tmpd, ignore_errors=True)
        ok = ok and p.returncode == 0
        closed += len(re.findall(r"Closed under the global context", out))
        axioms += re.findall(r"^Axioms:\n((?:.+\n)+)", out, re.M)
        outs.append(out)
    return (ok, closed, axioms), "\n".join(outs)


FORBIDDEN = re.compile(r"\b(Admitted|admit|Axiom|Parameter|Conjecture|Admit Obligations|Unset Guard|bypass_check|Unset Positivity|Unset Universe)\b")


def scan_forbidden():
    bad = []
    # the development is what _CoqProject builds (plus the extraction script); files not listed there are not compiled
    listed = [os.path.join(COQ, l.strip()) for l in open(os.path.join(COQ, "_CoqProject")) if l.strip().endswith(".v")]
    listed.append(os.path.join(COQ, "extraction", "Extract.v"))
    for f in listed:
        if not os.path.exists(f):
            continue
        txt = open(f).read()
        # strip comments (non-nested approximation is enough for our files)
        txt2 = re.sub(r"\(\*.*?\*\)", "", txt, flags=re.S)
        for m in FORBIDDEN.finditer(txt2):
            bad.append((f, m.group(0)))
    return bad


def run_isolated(exe, mode, cases, wd, tag, nshards=None, timeout=120, env=None, mem_bytes=None):
    """Like run_sharded, but a shard that dies or times out is attributed to the first case without an
    'end' line (the culprit); the remaining cases are re-run in a fresh process.
    Returns (cases_out: {id: lines}, culprits: {id: description})."""
    import resource
    nshards = nshards or min(NPROC, max(1, len(cases) // 4))
    queues = [[] for _ in range(nshards)]
    for i, c in enumerate(cases):
        queues[i % nshards].append(c)
    results = {}
    culprits = {}

    def limit():
        if mem_bytes:
            resource.setrlimit(resource.RLIMIT_AS, (mem_bytes, mem_bytes))

    rnd = 0
    while any(queues):
        procs = []
        for i, q in enumerate(queues):
            if not q:
                continue
            path = os.path.join(wd, "%s.%d.%d.script" % (tag, i, rnd))
            with open(path, "w") as f:
                for cid, lines in q:
                    f.write("case %s\n" % cid)
                    for l in lines:
                        f.write(l + "\n")
                    f.write("end\n")
            outp = os.path.join(wd, "%s.%d.%d.out" % (tag, i, rnd))
            p = subprocess.Popen([exe, mode, path], stdout=open(outp, "w"), stderr=subprocess.PIPE, env=env or os.environ, preexec_fn=limit)
            procs.append((i, p, outp))
        newq = [[] for _ in range(nshards)]
        for i, p, outp in procs:
            why = None
            try:
                _, err = p.communicate(timeout=timeout)
                if p.returncode != 0:
                    why = "process exited with status %d: %s" % (p.returncode, (err or b"").decode(errors="replace")[-300:].replace("\n", " | "))
            except subprocess.TimeoutExpired:
                p.kill()
                _, err = p.communicate()
                why = "deadline of %ds exceeded (possible non-termination)" % timeout
            text = open(outp, errors="replace").read()
            done, order = parse_obs_complete(text)
            results.update(done)
            if why is not None:
                q = queues[i]
                ids = [cid for cid, _ in q]
                k = next((j for j, cid in enumerate(ids) if cid not in done), None)
                if k is not None:
                    # the shard's deadline and address-space cap cover all its cases: before a case is blamed it is run once
                    # more in a process of its own under the same deadline and cap (a hang or crash of its own reproduces;
                    # a slow machine or the memory left behind by earlier cases of the shard does not)
                    solo = os.path.join(wd, "%s.%d.%d.solo.script" % (tag, i, rnd))
                    with open(solo, "w") as f:
                        f.write("case %s\n" % ids[k])
                        for l in q[k][1]:
                            f.write(l + "\n")
                        f.write("end\n")
                    why2 = None
                    try:
                        p2 = subprocess.run([exe, mode, solo], stdout=subprocess.PIPE, stderr=subprocess.PIPE, env=env or os.environ,
                                            preexec_fn=limit, timeout=timeout)
                        if p2.returncode != 0:
                            why2 = "process exited with status %d: %s" % (p2.returncode, (p2.stderr or b"").decode(errors="replace")[-300:].replace("\n", " | "))
                        else:
                            done2, _ = parse_obs_complete(p2.stdout.decode(errors="replace"))
                            if ids[k] in done2:
                                results.update(done2)
                            else:
                                why2 = why
                    except subprocess.TimeoutExpired:
                        why2 = "deadline of %ds exceeded, also when run alone (possible non-termination)" % timeout
                    if why2 is not None:
                        culprits[ids[k]] = why2
                    newq[i] = q[k + 1:]
        queues = newq
        rnd += 1
        if rnd > 200:
            break
    return results, culprits


def parse_obs_complete(text):
    """Only cases terminated by 'end'."""
    cases = {}
    order = []
    cur = None
    buf = []
    for line in text.splitlines():
        if line.startswith("case "):
            cur = line[5:].strip()
            buf = []
        elif line == "end" and cur is not None:
            cases[cur] = buf
            order.append(cur)
            cur = None
        elif cur is not None:
            buf.append(line)
    return cases, order
